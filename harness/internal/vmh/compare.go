package vmh

import (
	"encoding/hex"
	"fmt"
)

// ExpStep is one instruction of the reference execution exported by TLC (VMRun.tla).
type ExpStep struct {
	D     int     `json:"d"`
	PC    int     `json:"pc"`
	Gas   int64   `json:"gas"`
	Op    int     `json:"op"`
	Data  Bytes   `json:"data"`
	Fin   bool    `json:"fin"`
	Shown bool    `json:"shown"`
	DS    []Bytes `json:"ds"`
	DPhi  int64   `json:"dphi"`
	// Unpaid: memory cost of the items the instruction had pushed on credit when its final
	// settlement failed (the reference does not keep them)
	Unpaid int64 `json:"unpaid"`
}

// Expected is the reference result of one case.
type Expected struct {
	ID    int       `json:"id"`
	Err   string    `json:"err"`
	Gas   int64     `json:"gas"`
	Steps []ExpStep `json:"steps"`
}

type expLine struct {
	text string
	step int    // index into Steps
	kind string // "header" | "stack"
}

// lines renders the reference execution in the order the implementation prints its trace:
// header; (the steps of a CHECKPREDICATE child); stack after the instruction, top first.
func (e *Expected) lines() []expLine {
	var out []expLine
	var emit func(k int) int
	emit = func(k int) int {
		s := e.Steps[k]
		l := Line{Header: true, D: s.D, PC: s.PC, Gas: s.Gas, Op: s.Op, Name: OpName(s.Op)}
		if len(s.Data) > 0 {
			l.Data = hex.EncodeToString(s.Data)
		}
		out = append(out, expLine{l.String(), k, "header"})
		n := k + 1
		for n < len(e.Steps) && e.Steps[n].D > s.D {
			n = emit(n)
		}
		if s.Shown {
			for i := len(s.DS) - 1; i >= 0; i-- {
				out = append(out, expLine{Line{Idx: len(s.DS) - 1 - i, Item: s.DS[i]}.String(), k, "stack"})
			}
		}
		return n
	}
	for k := 0; k < len(e.Steps); {
		k = emit(k)
	}
	return out
}

// Mismatch describes the first divergence between the real execution and the reference.
type Mismatch struct {
	Kind string // stack | gas | flow | outcome | result | finalgas | bounds
	Op   string // name of the instruction held responsible
	Desc string
	// Exp / Got: result classes when Kind is outcome or result
	Exp, Got string
	// AfterJoin: a CAT / CATPUSHDATA completed before the divergence (they are the instructions that
	// build a new item out of old ones; a divergence seen later - e.g. when a corrupted item comes
	// back from the alt stack - may have its cause there)
	AfterJoin bool
	Step      int // index of the reference step held responsible
}

// FailClassesEqual: compare only success / failure of the verification, not the failure class
// (C06 is about values and buffers; failure classes are judged by C08).
var FailClassesEqual bool

// Compare returns nil if the observation is what the specification computed.
// Remaining gas of a failed verification is only required to lie in [0, limit].
func Compare(c *Case, e *Expected, o *Obs) *Mismatch {
	m := compare(c, e, o)
	if m == nil {
		return nil
	}
	m.Exp, m.Got = SpecClass(e.Err), o.Err
	for k, st := range e.Steps {
		if k < m.Step && (st.Op == 0x7e || st.Op == 0x89) && st.Fin {
			m.AfterJoin = true
		}
	}
	return m
}

func compare(c *Case, e *Expected, o *Obs) *Mismatch {
	return compareTrace(c, e, o)
}

func compareTrace(c *Case, e *Expected, o *Obs) *Mismatch {
	exp := e.lines()
	lastOp := "start"
	lastStep := 0
	prevDone := "start" // last instruction known to have completed identically
	for j := 0; j < len(exp) || j < len(o.Lines); j++ {
		if j >= len(o.Lines) && o.NonTerm {
			return nil
		}
		if j >= len(o.Lines) {
			x := exp[j]
			st := e.Steps[x.step]
			if x.kind == "stack" && x.step == lastStep {
				return &Mismatch{Kind: "outcome", Op: OpName(st.Op), Step: x.step, Desc: fmt.Sprintf("the implementation printed no result stack for %s at pc %d (it failed with %s: %s) where the specification completes the instruction with stack line %q",
					OpName(st.Op), st.PC, o.Err, o.ErrText, x.text)}
			}
			return &Mismatch{Kind: "outcome", Op: lastOp, Step: lastStep, Desc: fmt.Sprintf("the implementation stopped after %s (result %s: %s) where the specification continues with %q", lastOp, o.Err, o.ErrText, x.text)}
		}
		got := o.Lines[j]
		if j >= len(exp) {
			if got.Header {
				return &Mismatch{Kind: "outcome", Op: lastOp, Step: lastStep, Desc: fmt.Sprintf("the implementation goes on with %q where the specification ends after %s with result %s", got.String(), lastOp, e.Err)}
			}
			return &Mismatch{Kind: "outcome", Op: lastOp, Step: lastStep, Desc: fmt.Sprintf("the implementation completes %s with stack line %q where the specification fails it with %s", lastOp, got.String(), e.Err)}
		}
		x := exp[j]
		st := e.Steps[x.step]
		if got.String() == x.text {
			if x.kind == "header" {
				prevDone = lastOp
				lastOp = OpName(st.Op)
				lastStep = x.step
			}
			continue
		}
		if x.kind == "header" && got.Header {
			if got.D == st.D && got.PC == st.PC && got.Op == st.Op && got.Gas != st.Gas {
				if m := unpaidRefund(e, x.step, st.D, got.Gas-st.Gas); m != nil {
					m.Desc += fmt.Sprintf(": remaining gas before %s at pc %d is %d, the specification says %d", OpName(st.Op), st.PC, got.Gas, st.Gas)
					return m
				}
				return &Mismatch{Kind: "gas", Op: lastOp, Step: lastStep, Desc: fmt.Sprintf("remaining gas before %s at pc %d (depth %d) is %d, the specification says %d: %s charged the wrong amount",
					OpName(st.Op), st.PC, st.D, got.Gas, st.Gas, lastOp)}
			}
			return &Mismatch{Kind: "flow", Op: lastOp, Step: lastStep, Desc: fmt.Sprintf("after %s the implementation executes %q, the specification %q", lastOp, got.String(), x.text)}
		}
		if x.kind == "stack" && !got.Header && x.step != lastStep {
			return &Mismatch{Kind: "outcome", Op: lastOp, Step: lastStep, Desc: fmt.Sprintf("the implementation completes %s (it prints %q) where the specification fails it and continues with %q", lastOp, got.String(), x.text)}
		}
		if x.kind == "stack" && !got.Header {
			return &Mismatch{Kind: "stack", Op: OpName(st.Op), Step: x.step, Desc: fmt.Sprintf("data stack after %s at pc %d (depth %d): implementation has %q, specification %q",
				OpName(st.Op), st.PC, st.D, got.String(), x.text)}
		}
		if x.kind == "stack" {
			return &Mismatch{Kind: "stack", Op: OpName(st.Op), Step: x.step, Desc: fmt.Sprintf("data stack after %s at pc %d: specification expects %q, implementation printed %q", OpName(st.Op), st.PC, x.text, got.String())}
		}
		return &Mismatch{Kind: "outcome", Op: lastOp, Step: lastStep, Desc: fmt.Sprintf("after %s: implementation printed %q, specification expects %q", lastOp, got.String(), x.text)}
	}
	_ = prevDone
	if o.NonTerm {
		return nil // reported separately
	}
	want := SpecClass(e.Err)
	if FailClassesEqual && o.Err != "none" && want != "none" {
		want = o.Err
	}
	if o.Err != want {
		return &Mismatch{Kind: "result", Op: lastOp, Step: lastStep, Desc: fmt.Sprintf("vm.Verify returned class %s (%s), the specification says %s (last instruction %s)", o.Err, o.ErrText, want, lastOp)}
	}
	if o.Gas < 0 || o.Gas > c.Limit {
		return &Mismatch{Kind: "bounds", Op: lastOp, Step: lastStep, Desc: fmt.Sprintf("vm.Verify returned gasLeft %d outside [0, %d]", o.Gas, c.Limit)}
	}
	if want == "none" && o.Gas != e.Gas {
		if m := unpaidRefund(e, len(e.Steps), 0, o.Gas-e.Gas); m != nil {
			m.Desc += fmt.Sprintf(": vm.Verify returned gasLeft %d, the specification says %d", o.Gas, e.Gas)
			return m
		}
		return &Mismatch{Kind: "finalgas", Op: lastOp, Step: lastStep, Desc: fmt.Sprintf("vm.Verify returned gasLeft %d, the specification says %d (last instruction %s)", o.Gas, e.Gas, lastOp)}
	}
	return nil
}

// unpaidRefund: a CHECKPREDICATE child (deeper than depth, before step `before`) failed in its final
// settlement and the implementation's gas exceeds the reference by exactly the memory cost of the
// item(s) the child had pushed without being able to pay for them.
func unpaidRefund(e *Expected, before, depth int, diff int64) *Mismatch {
	for k := before - 1; k >= 0; k-- {
		u := e.Steps[k]
		if u.D > depth && !u.Fin && u.Unpaid > 0 && diff == u.Unpaid {
			return &Mismatch{Kind: "unpaid-refund", Op: OpName(u.Op), Step: k, Desc: fmt.Sprintf(
				"the CHECKPREDICATE child failed in %s at pc %d for lack of gas while settling the cost of the item(s) it had just pushed (memory cost %d, never charged); the implementation nevertheless refunds that cost to the parent",
				OpName(u.Op), u.PC, u.Unpaid)}
		}
		if u.D <= depth && u.Op != 0xc0 {
			break
		}
	}
	return nil
}
