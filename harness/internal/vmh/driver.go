package vmh

import (
	"bufio"
	"crypto/sha256"
	"encoding/hex"
	"encoding/json"
	"fmt"
	"os"
	"path/filepath"
	"regexp"
	"strconv"
	"strings"

	"github.com/bytom/bytom/protocol/vm"

	"verifharness/internal/vh"
)

// ReadCases reads cases from ndjson or from raw TLC output ("EXPORT" lines). Cases written by
// WriteCases refer to their context by index into ctxs.ndjson in the same directory.
func ReadCases(path string) ([]*Case, error) {
	var ctxs []Ctx
	cpath := filepath.Join(filepath.Dir(path), "ctxs.ndjson")
	if _, err := os.Stat(cpath); err == nil {
		if _, err := vh.EachExport(cpath, func(_ int, doc []byte) error {
			var x Ctx
			if e := json.Unmarshal(doc, &x); e != nil {
				return e
			}
			ctxs = append(ctxs, x)
			return nil
		}); err != nil {
			return nil, err
		}
	}
	var cs []*Case
	_, err := vh.EachExport(path, func(_ int, doc []byte) error {
		c := &Case{}
		if e := json.Unmarshal(doc, c); e != nil {
			return fmt.Errorf("bad case %s: %v", string(doc[:min(len(doc), 200)]), e)
		}
		if c.Cx > 0 {
			if c.Cx > len(ctxs) {
				return fmt.Errorf("case %d refers to context %d of %d", c.ID, c.Cx, len(ctxs))
			}
			c.Ctx = ctxs[c.Cx-1]
		}
		c.Normalize()
		cs = append(cs, c)
		return nil
	})
	return cs, err
}

func min(a, b int) int {
	if a < b {
		return a
	}
	return b
}

// WriteCases writes dir/cases.<k>.ndjson (k = 0..nshards-1, round robin) and dir/ctxs.ndjson for
// VMRun.tla: the context records are shared (most cases use the same one).
func WriteCases(dir string, cs []*Case, nshards int) error {
	if err := os.MkdirAll(dir, 0o755); err != nil {
		return err
	}
	idx := map[string]int{}
	var ctxs [][]byte
	ws := make([]*bufio.Writer, nshards)
	fs := make([]*os.File, nshards)
	for k := range ws {
		f, err := os.Create(filepath.Join(dir, fmt.Sprintf("cases.%d.ndjson", k)))
		if err != nil {
			return err
		}
		fs[k], ws[k] = f, bufio.NewWriterSize(f, 1<<20)
	}
	for i, c := range cs {
		cb, err := json.Marshal(&c.Ctx)
		if err != nil {
			return err
		}
		k, ok := idx[string(cb)]
		if !ok {
			ctxs = append(ctxs, cb)
			k = len(ctxs)
			idx[string(cb)] = k
		}
		w := wireCase{ID: c.ID, Prog: c.Prog, Args: c.Args, State: c.State, Limit: c.Limit, Cx: k, H: c.H, S: c.S, Fam: c.Fam}
		b, err := json.Marshal(&w)
		if err != nil {
			return err
		}
		ws[i%nshards].Write(b)
		ws[i%nshards].WriteByte('\n')
	}
	for k := range ws {
		if err := ws[k].Flush(); err != nil {
			return err
		}
		if err := fs[k].Close(); err != nil {
			return err
		}
	}
	f, err := os.Create(filepath.Join(dir, "ctxs.ndjson"))
	if err != nil {
		return err
	}
	for _, cb := range ctxs {
		f.Write(cb)
		f.Write([]byte("\n"))
	}
	return f.Close()
}

type wireCase struct {
	ID    int        `json:"id"`
	Prog  Bytes      `json:"prog"`
	Args  []Bytes    `json:"args"`
	State []Bytes    `json:"state"`
	Limit int64      `json:"limit"`
	Cx    int        `json:"cx"`
	H     []HashFact `json:"H"`
	S     []SigFact  `json:"S"`
	Fam   string     `json:"fam"`
}

// MaxSteps bounds the length of an execution handed to TLC (its history grows with every step).
var MaxSteps = 600

// Prep numbers the cases, executes each once on the real code to learn which byte strings occur
// (only to know which hash / signature facts to compute with the standard library) and drops
// executions that are too long for TLC. Returns the kept cases.
func Prep(cs []*Case) (kept []*Case, dropped int) {
	id := 0
	nonterm := 0
	for _, c := range cs {
		c.Normalize()
		var o *Obs
		var err error
		for try := 0; ; try++ {
			bound := StepCap(c.Limit)
			cap := bound
			if MaxSteps+1 < cap && c.Limit > 1000 {
				cap = MaxSteps + 1 // only probing whether the execution fits
			}
			if o, err = RunCap(c, "indep", cap); err != nil {
				vh.Fatal("prep: %v", err)
			}
			if o.Hang {
				vh.Violation("hang:"+lastName(o), fmt.Sprintf("vm.Verify did not return within 60s on program %x limit %d", []byte(c.Prog), c.Limit), c)
				vh.Summary(map[string]interface{}{"hang": true})
				os.Exit(0)
			}
			if !o.NonTerm && o.NSteps <= MaxSteps {
				break
			}
			if o.NonTerm && cap == bound {
				nonterm++ // really longer than any gas-respecting execution: keep it, cmp reports it
				break
			}
			if try > 60 {
				o = nil
				break
			}
			// too long for TLC: shrink the gas limit, the program then runs out of gas earlier
			c.Limit = c.Limit * 2 / 3
		}
		if o == nil {
			dropped++
			continue
		}
		Facts(c, o)
		id++
		c.ID = id
		kept = append(kept, c)
	}
	if nonterm > 0 {
		vh.Summary(map[string]interface{}{"nonterminating_in_prep": nonterm})
	}
	return kept, dropped
}

func lastName(o *Obs) string {
	n := "start"
	for _, l := range o.Lines {
		if l.Header {
			n = l.Name
		}
	}
	return n
}

func caseKey(c *Case) string {
	h := sha256.New()
	cc := *c
	cc.ID, cc.H, cc.S, cc.Fam = 0, nil, nil, ""
	b, _ := json.Marshal(&cc)
	h.Write(b)
	return hex.EncodeToString(h.Sum(nil)[:12])
}

// Known findings (regexes on signatures, from KNOWN_FINDINGS.txt via VERIF_KNOWN_SIGS): they are
// still reported (the orchestrator classifies them) but a few examples per signature are enough and
// they must not stop the run early, or one known defect would hide every other divergence.
var (
	knownRe  []*regexp.Regexp
	perSig   = map[string]int{}
	nUnknown int
)

func init() {
	for _, r := range strings.Split(os.Getenv("VERIF_KNOWN_SIGS"), "\n") {
		if r = strings.TrimSpace(r); r != "" {
			if re, err := regexp.Compile(r); err == nil {
				knownRe = append(knownRe, re)
			}
		}
	}
}

func report(sig, desc string, rep interface{}) {
	perSig[sig]++
	known := false
	for _, re := range knownRe {
		if re.MatchString(sig) {
			known = true
		}
	}
	if perSig[sig] > 3 {
		return
	}
	if !known {
		nUnknown++
	}
	vh.Violation(sig, desc, rep)
}

func tooMany() bool { return nUnknown >= 12 }

// CmpOptions selects what the comparison reports.
type CmpOptions struct {
	Prefix   string   // signature prefix: alias | gas | opcode
	Layouts  []string // buffer layouts to execute
	Corrupt  bool     // negative control: corrupt every expected result first; mismatches are counted, not reported
	ZeroCost bool     // report completed instructions whose reference cost (confirmed by the code) is < 1
	ArgClass bool     // append the magnitude class of the largest argument to signatures
	Twice    bool     // verify every context twice (same caller buffers); both runs must equal the reference
}

// argClass: structural class of the case's arguments (for signatures): does an argument, read as a
// little-endian number without trailing zeros, reach 2^63 / 2^64 (the machine-word boundaries)?
func argClass(c *Case) string {
	cls := ""
	items := append([]Bytes{}, c.Args...)
	if insts, err := vm.ParseProgram(c.Prog); err == nil {
		for _, i := range insts {
			if len(i.Data) > 0 && i.Op != vm.OP_JUMP && i.Op != vm.OP_JUMPIF {
				items = append(items, Bytes(i.Data)) // operands pushed by the program itself
			}
		}
	}
	for _, a := range items {
		n := len(a)
		for n > 0 && a[n-1] == 0 {
			n--
		}
		if n > 8 {
			return ":arg>=2^64"
		}
		if n == 8 && a[7] >= 0x80 {
			cls = ":arg>=2^63"
		}
	}
	return cls
}

// Cmp executes every case on the real code and compares with the TLC export.
func Cmp(dir string, tlcOuts []string, opt CmpOptions) {
	var cs []*Case
	shards, _ := filepath.Glob(filepath.Join(dir, "cases.*.ndjson"))
	for _, sh := range shards {
		part, err := ReadCases(sh)
		if err != nil {
			vh.Fatal("cmp: %v", err)
		}
		cs = append(cs, part...)
	}
	var err error
	byID := map[int]*Case{}
	for _, c := range cs {
		byID[c.ID] = c
	}
	var ncase, nsteps, nskipped, nmis, nbuf, ncorrupt, ndetected, nzero, nsecond int
	distinct := map[string]bool{}
	fams := map[string]int{}
	opsSeen := map[int]int{}
	opsDone := map[int]int{}
	classes := map[string]int{}
	nsample := 0
	seenExp := map[int]bool{}
	each := func(_ int, doc []byte) error {
		e := &Expected{}
		if er := json.Unmarshal(doc, e); er != nil {
			return fmt.Errorf("bad export: %v", er)
		}
		c := byID[e.ID]
		if c == nil {
			return fmt.Errorf("export for unknown case id %d", e.ID)
		}
		if seenExp[e.ID] {
			return nil
		}
		seenExp[e.ID] = true
		if e.Err == "nohash" {
			nskipped++
			return nil
		}
		ncase++
		nsteps += len(e.Steps)
		fams[c.Fam]++
		classes[SpecClass(e.Err)]++
		nontrivial := false
		for _, s := range e.Steps {
			opsSeen[s.Op]++
			if s.Fin {
				opsDone[s.Op]++
				nontrivial = true
			}
		}
		if nontrivial {
			distinct[caseKey(c)] = true
		}
		if opt.Corrupt {
			if !corrupt(e) {
				return nil
			}
			ncorrupt++
			o, er := Run(c, "indep")
			if er != nil {
				return er
			}
			if Compare(c, e, o) != nil {
				ndetected++
			}
			return nil
		}
		agreed := true
		for _, lay := range opt.Layouts {
			var o, o2 *Obs
			var er error
			if opt.Twice {
				o, o2, er = RunTwice(c, lay)
			} else {
				o, er = Run(c, lay)
			}
			if er != nil {
				return er
			}
			if o2 != nil && !o2.Hang {
				nsecond++
				if m2 := Compare(c, e, o2); m2 != nil {
					agreed = false
					nmis++
					report(fmt.Sprintf("%s:%s:%s:second-run", opt.Prefix, m2.Op, m2.Kind), fmt.Sprintf(
						"[%s buffers] program %x args %s state %s limit %d: verifying the same context a second time gives a different execution: %s",
						lay, []byte(c.Prog), argsHex(c.Args), argsHex(c.State), c.Limit, m2.Desc), replay(c, e, o2, lay))
				}
				if o.BufDiff == "" && o2.BufDiff != "" {
					o.BufDiff, o.BufAfter = o2.BufDiff+" (during the second verification)", o2.BufAfter
				}
			}
			if o.Hang {
				vh.Violation("hang:"+lastName(o), fmt.Sprintf("vm.Verify did not return within 60s on program %x limit %d", []byte(c.Prog), c.Limit), replay(c, e, o, lay))
				vh.Summary(map[string]interface{}{"hang": true})
				os.Exit(0)
			}
			m := Compare(c, e, o)
			if m != nil {
				agreed = false
				nmis++
				sig := fmt.Sprintf("%s:%s:%s", opt.Prefix, m.Op, m.Kind)
				if m.Kind == "outcome" || m.Kind == "result" {
					sig += ":" + m.Exp + "/" + m.Got
				}
				if m.AfterJoin {
					sig += ":after-join"
				}
				if opt.ArgClass {
					sig += argClass(c)
				}
				report(sig, fmt.Sprintf("[%s buffers] program %x args %s limit %d: %s", lay, []byte(c.Prog), argsHex(c.Args), c.Limit, m.Desc), replay(c, e, o, lay))
			}
			// gas out of [0, limit] is reported whatever the first divergence was - except after an
			// unpaid refund, whose gas creation (already reported under its own signature) explains it
			if m == nil || (m.Kind != "bounds" && m.Kind != "unpaid-refund") {
				if op, d := gasBounds(c, o); d != "" {
					agreed = false
					nmis++
					report(fmt.Sprintf("%s:%s:bounds", opt.Prefix, op), fmt.Sprintf("[%s buffers] program %s args %s limit %d: %s",
						lay, progHex(c.Prog), argsHex(c.Args), c.Limit, d), replay(c, e, o, lay))
				}
			}
			if o.NonTerm {
				agreed = false
				nmis++
				report(opt.Prefix+":nontermination", fmt.Sprintf("[%s buffers] program %x args %s: vm.Verify was still running after %d instructions on gas limit %d (aborted by the driver); every instruction must consume at least one unit of gas, so no execution can be longer than the limit",
					lay, []byte(c.Prog), argsHex(c.Args), StepCap(c.Limit), c.Limit), replay(c, e, o, lay))
			}
			if o.BufDiff != "" {
				nbuf++
				sig := fmt.Sprintf("%s:%s:callerbuf", opt.Prefix, o.BufAfter)
				report(sig, fmt.Sprintf("[%s buffers] program %x args %s state %s: running the program changed the caller's data: %s (first seen after %s)",
					lay, []byte(c.Prog), argsHex(c.Args), argsHex(c.State), o.BufDiff, o.BufAfter), replay(c, e, o, lay))
			}
			if tooMany() {
				break
			}
		}
		if opt.ZeroCost && agreed {
			for _, s := range e.Steps {
				if s.Fin && s.DPhi < 1 {
					nzero++
					report(fmt.Sprintf("%s:%s:zero-cost", opt.Prefix, OpName(s.Op)),
						fmt.Sprintf("program %x args %s limit %d: instruction %s at pc %d (depth %d) completed and consumed %d units (gas + memory cost of both stacks did not decrease); the implementation's trace equals the reference execution step by step",
							[]byte(c.Prog), argsHex(c.Args), c.Limit, OpName(s.Op), s.PC, s.D, s.DPhi), replay(c, e, nil, "indep"))
					break
				}
			}
		}
		if nsample < 3 && nontrivial && len(e.Steps) >= 2 {
			nsample++
			vh.Sample(map[string]interface{}{"program": hex.EncodeToString(c.Prog), "args": argsHex(c.Args), "limit": c.Limit,
				"expected_result": e.Err, "expected_gas_left": e.Gas, "steps": len(e.Steps), "family": c.Fam})
		}
		if tooMany() {
			return fmt.Errorf("stop")
		}
		return nil
	}
	for _, tlcOut := range tlcOuts {
		if _, err = vh.EachExport(tlcOut, each); err != nil {
			break
		}
	}
	if err != nil && err.Error() != "stop" {
		vh.Fatal("cmp: %v", err)
	}
	if !opt.Corrupt && !tooMany() && len(seenExp) != len(cs) {
		vh.Fatal("cmp: TLC exported %d reference executions for %d cases", len(seenExp), len(cs))
	}
	ops, done := 0, 0
	for range opsSeen {
		ops++
	}
	for range opsDone {
		done++
	}
	vh.Summary(map[string]interface{}{
		"cases": ncase, "steps": nsteps, "unjudged_missing_hash_fact": nskipped, "mismatches": nmis, "buffer_changes": nbuf,
		"distinct_nontrivial": len(distinct), "families": fams, "opcodes_started": ops, "opcodes_completed": done,
		"result_classes": classes, "control_corrupted": ncorrupt, "control_detected": ndetected, "zero_cost": nzero,
		"layouts": strings.Join(opt.Layouts, ","), "second_verifications": nsecond,
	})
}

// corrupt changes one expected value (negative control): the gas of the first step if there is
// one, else the result class.
func corrupt(e *Expected) bool {
	if len(e.Steps) > 0 {
		k := len(e.Steps) - 1
		if e.Steps[k].Shown && len(e.Steps[k].DS) > 0 {
			top := len(e.Steps[k].DS) - 1
			e.Steps[k].DS[top] = append(append(Bytes{}, e.Steps[k].DS[top]...), 0x5a)
			return true
		}
		e.Steps[0].Gas++
		return true
	}
	if e.Err == "none" {
		e.Err = "false"
	} else {
		e.Err = "none"
	}
	return true
}

func argsHex(a []Bytes) string {
	s := make([]string, len(a))
	for i := range a {
		s[i] = hex.EncodeToString(a[i])
	}
	return "[" + strings.Join(s, " ") + "]"
}

func replay(c *Case, e *Expected, o *Obs, lay string) interface{} {
	r := map[string]interface{}{"case": c, "layout": lay, "expected": e}
	if o != nil {
		var tr []string
		for _, l := range o.Lines {
			tr = append(tr, l.String())
			if len(tr) > 400 {
				break
			}
		}
		r["observed"] = map[string]interface{}{"result": o.Err, "error": o.ErrText, "gas_left": o.Gas, "trace": tr, "buffer_change": o.BufDiff}
	}
	return r
}

// WriteRaw writes generated cases (full records, before Prep) as ndjson.
func WriteRaw(path string, cs []*Case) error {
	f, err := os.Create(path)
	if err != nil {
		return err
	}
	w := bufio.NewWriterSize(f, 1<<20)
	for _, c := range cs {
		c.Normalize()
		b, err := json.Marshal(c)
		if err != nil {
			return err
		}
		w.Write(b)
		w.WriteByte('\n')
	}
	if err := w.Flush(); err != nil {
		return err
	}
	return f.Close()
}

// Main is the command line shared by c06, c07 and c08:
//
//	gen  <out.ndjson> <n> [family...]   seeded generator of the property (gen callback)
//	prep <raw>... <dir> <nshards>       number the cases, add hash / signature facts, write shards
//	cmp  <dir> <tlc.out>... [corrupt]   execute the real VM and compare with the TLC export
func Main(opt CmpOptions, gen func(args []string) []*Case) {
	vh.Quiet()
	if len(os.Args) < 2 {
		vh.Fatal("usage: gen|prep|cmp ...")
	}
	switch os.Args[1] {
	case "gen":
		cs := gen(os.Args[3:])
		if err := WriteRaw(os.Args[2], cs); err != nil {
			vh.Fatal("gen: %v", err)
		}
		fam := map[string]int{}
		for _, c := range cs {
			fam[c.Fam]++
		}
		vh.Summary(map[string]interface{}{"generated": len(cs), "generated_families": fam})
	case "prep":
		n := len(os.Args)
		nsh, err := strconv.Atoi(os.Args[n-1])
		if err != nil || nsh < 1 {
			vh.Fatal("prep: bad shard count %q", os.Args[n-1])
		}
		var cs []*Case
		for _, in := range os.Args[2 : n-2] {
			part, err := ReadCases(in)
			if err != nil {
				vh.Fatal("prep: %v", err)
			}
			cs = append(cs, part...)
		}
		kept, dropped := Prep(cs)
		if err := WriteCases(os.Args[n-2], kept, nsh); err != nil {
			vh.Fatal("prep: %v", err)
		}
		vh.Summary(map[string]interface{}{"prepared": len(kept), "dropped_too_long": dropped})
	case "cmp":
		var outs []string
		for _, a := range os.Args[3:] {
			if a == "corrupt" {
				opt.Corrupt = true
			} else {
				outs = append(outs, a)
			}
		}
		Cmp(os.Args[2], outs, opt)
	default:
		vh.Fatal("unknown command %q", os.Args[1])
	}
}

func progHex(p Bytes) string {
	if len(p) > 200 {
		return fmt.Sprintf("%x...(%d bytes)", []byte(p[:80]), len(p))
	}
	return fmt.Sprintf("%x", []byte(p))
}

// gasBounds: 0 <= remaining gas <= limit must hold before every instruction of every machine (a child
// never gets more than its parent has) and for the gasLeft that vm.Verify returns - whatever else
// the execution does. Returns the instruction held responsible and a description, or "", "".
func gasBounds(c *Case, o *Obs) (string, string) {
	prev := "start"
	for _, l := range o.Lines {
		if !l.Header {
			continue
		}
		if l.Gas < 0 || l.Gas > c.Limit {
			return prev, fmt.Sprintf("remaining gas before %s at pc %d (depth %d) is %d, outside [0, %d]: %s moved the run limit out of its bounds",
				l.Name, l.PC, l.D, l.Gas, c.Limit, prev)
		}
		prev = l.Name
	}
	if !o.NonTerm && !o.Hang && (o.Gas < 0 || o.Gas > c.Limit) {
		return prev, fmt.Sprintf("vm.Verify returned gasLeft %d outside [0, %d] (result %s, last instruction %s)", o.Gas, c.Limit, o.Err, prev)
	}
	return "", ""
}
