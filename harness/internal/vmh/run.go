package vmh

import (
	"bytes"
	"crypto/ed25519"
	"crypto/sha256"
	"fmt"
	"sort"
	"strings"
	"time"
	"unsafe"

	"golang.org/x/crypto/ripemd160"
	"golang.org/x/crypto/sha3"

	"github.com/bytom/bytom/encoding/blockchain"
	"github.com/bytom/bytom/protocol/vm"
)

// Layouts of the caller's buffers (C06): the result must not depend on them.
//   indep  : every argument, state item and the program in its own exact-capacity buffer
//   spare  : every one in its own buffer with 24 bytes of spare capacity (filled with 0xEE)
//   shared : all of them sub-slices of ONE buffer, produced by the repository's own decoder
//            (blockchain.ReadVarstrList / ReadVarstr31, as the transaction decoder does), followed
//            by spare capacity
// The caller's LISTS (the outer [][]byte of the arguments and of the state data) are laid out too: exact capacity in
// `indep`; in `spare` / `shared` the list is the prefix all[:k] of a longer list whose further entries belong to the
// caller as well. After every step and after the run the lists (length, every entry, the entries behind them), every
// item's bytes and the program are compared with their values before the run.
var Layouts = []string{"indep", "spare", "shared"}

const sentinel = 0xEE

type buffers struct {
	args, state [][]byte
	prog        []byte
	// every caller-visible backing array with a pristine copy
	backing  [][]byte
	pristine [][]byte
	names    []string
	// the caller's lists themselves (outer [][]byte buffers): the whole backing array of each list,
	// of which the caller's list is the prefix [:n], with the slice headers it held before the run
	lists []*outerList
}

type hdr struct {
	p    *byte
	l, c int
}

type outerList struct {
	name string
	full [][]byte // backing array of the list, entries behind the caller's list included
	n    int      // length of the caller's list
	was  []hdr
}

func hdrOf(x []byte) hdr { return hdr{unsafe.SliceData(x), len(x), cap(x)} }

// outer builds the caller's list for the given items. behind > 0: the list is the prefix of a longer
// list (spare capacity behind it, holding other items the caller owns - `all[:k]`); behind = 0: exact capacity.
func (b *buffers) outer(name string, items [][]byte, behind int) [][]byte {
	full := make([][]byte, len(items)+behind)
	copy(full, items)
	for i := len(items); i < len(full); i++ {
		_, f := own([]byte{0x5e, byte(i), 0x5e}, 0)
		full[i] = f
		b.track(fmt.Sprintf("item %d behind the %s list", i-len(items), name), f)
	}
	ol := &outerList{name: name, full: full, n: len(items)}
	for _, x := range full {
		ol.was = append(ol.was, hdrOf(x))
	}
	b.lists = append(b.lists, ol)
	return full[:len(items):len(full)]
}


func (b *buffers) track(name string, full []byte) {
	b.backing = append(b.backing, full)
	b.pristine = append(b.pristine, append([]byte(nil), full...))
	b.names = append(b.names, name)
}

func (b *buffers) diff() string {
	for _, ol := range b.lists {
		for i, x := range ol.full {
			if hdrOf(x) != ol.was[i] {
				where := fmt.Sprintf("entry %d of the caller's %s list (%d entries)", i, ol.name, ol.n)
				if i >= ol.n {
					where = fmt.Sprintf("entry %d behind the caller's %s list (%d entries, backing array of %d)", i-ol.n, ol.name, ol.n, len(ol.full))
				}
				return fmt.Sprintf("%s was replaced: now %x", where, x)
			}
		}
	}
	for i := range b.backing {
		if !bytes.Equal(b.backing[i], b.pristine[i]) {
			for k := range b.backing[i] {
				if b.backing[i][k] != b.pristine[i][k] {
					return fmt.Sprintf("%s: byte %d changed from %#02x to %#02x", b.names[i], k, b.pristine[i][k], b.backing[i][k])
				}
			}
		}
	}
	return ""
}

func own(x []byte, spare int) (view, full []byte) {
	full = make([]byte, len(x)+spare)
	copy(full, x)
	for i := len(x); i < len(full); i++ {
		full[i] = sentinel
	}
	return full[:len(x)], full
}

func layout(c *Case, kind string) (*buffers, error) {
	b := &buffers{}
	switch kind {
	case "indep", "spare":
		spare := 0
		if kind == "spare" {
			spare = 24
		}
		for i, a := range c.Args {
			v, f := own(a, spare)
			b.args = append(b.args, v)
			b.track(fmt.Sprintf("argument %d", i), f)
		}
		for i, a := range c.State {
			v, f := own(a, spare)
			b.state = append(b.state, v)
			b.track(fmt.Sprintf("state %d", i), f)
		}
		v, f := own(c.Prog, spare)
		b.prog = v
		b.track("program", f)
		behind := 0
		if kind == "spare" {
			behind = 3
		}
		b.args = b.outer("argument", b.args, behind)
		b.state = b.outer("state-data", b.state, behind)
	case "shared":
		var w bytes.Buffer
		toList := func(l []Bytes) [][]byte {
			r := make([][]byte, len(l))
			for i := range l {
				r[i] = l[i]
			}
			return r
		}
		blockchain.WriteVarstrList(&w, toList(c.Args))
		blockchain.WriteVarstrList(&w, toList(c.State))
		blockchain.WriteVarstr31(&w, c.Prog)
		n := w.Len()
		full := make([]byte, n+48)
		copy(full, w.Bytes())
		for i := n; i < len(full); i++ {
			full[i] = sentinel
		}
		r := blockchain.NewReader(full)
		var err error
		if b.args, err = blockchain.ReadVarstrList(r); err != nil {
			return nil, err
		}
		if b.state, err = blockchain.ReadVarstrList(r); err != nil {
			return nil, err
		}
		if b.prog, err = blockchain.ReadVarstr31(r); err != nil {
			return nil, err
		}
		b.track("shared transaction buffer", full)
		b.args = b.outer("argument", b.args, 2)
		b.state = b.outer("state-data", b.state, 2)
	default:
		return nil, fmt.Errorf("unknown layout %q", kind)
	}
	return b, nil
}

func optBytes(o Opt) *[]byte {
	if !o.Has {
		return nil
	}
	v := append([]byte{}, o.V...)
	return &v
}

func optU64(o Opt) *uint64 {
	if !o.Has {
		return nil
	}
	v := le64(o.V)
	return &v
}

// Context concretises the case for the given buffers.
func Context(c *Case, b *buffers) *vm.Context {
	x := &vm.Context{
		VMVersion:     uint64(c.Ctx.VMVer),
		Code:          b.prog,
		StateData:     b.state,
		Arguments:     b.args,
		EntryID:       append([]byte{}, c.Ctx.Entry...),
		BlockHeight:   optU64(c.Ctx.Height),
		AssetID:       optBytes(c.Ctx.Asset),
		Amount:        optU64(c.Ctx.Amount),
		DestPos:       optU64(c.Ctx.DestPos),
		SpentOutputID: optBytes(c.Ctx.OutID),
	}
	txv := uint64(2)
	if c.Ctx.ExpRes {
		txv = 1
	}
	x.TxVersion = &txv
	if c.Ctx.SigHash.Has {
		h := append([]byte{}, c.Ctx.SigHash.V...)
		x.TxSigHash = func() []byte { return append([]byte{}, h...) }
	}
	if c.Ctx.CO.Has {
		outs := c.Ctx.CO.Outs
		x.CheckOutput = func(index uint64, amount uint64, assetID []byte, vmVersion uint64, code []byte, state [][]byte, expansion bool) (bool, error) {
			if index >= uint64(len(outs)) {
				return false, vm.ErrBadValue
			}
			o := outs[index]
			return amount == le64(o.Amount) && bytes.Equal(assetID, o.Asset) && vmVersion == le64(o.Ver) && bytes.Equal(code, o.Code), nil
		}
	}
	return x
}

// Run executes the real vm.Verify on the case with the given buffer layout.
func Run(c *Case, kind string) (*Obs, error) { return RunCap(c, kind, StepCap(c.Limit)) }

// RunCap is Run with an explicit bound on the number of instructions (the execution is aborted
// beyond it; Obs.NonTerm is set).
func RunCap(c *Case, kind string, stepCap int) (*Obs, error) {
	b, err := layout(c, kind)
	if err != nil {
		return nil, err
	}
	return verifyOnce(c, b, Context(c, b), stepCap)
}

// RunTwice verifies the SAME context (same caller buffers) twice: the second verification must see
// exactly what the first one saw (running a program never changes the caller's data).
func RunTwice(c *Case, kind string) (*Obs, *Obs, error) {
	b, err := layout(c, kind)
	if err != nil {
		return nil, nil, err
	}
	x := Context(c, b)
	o1, err := verifyOnce(c, b, x, StepCap(c.Limit))
	if err != nil || o1.Hang {
		return o1, nil, err
	}
	o2, err := verifyOnce(c, b, x, StepCap(c.Limit))
	return o1, o2, err
}

func verifyOnce(c *Case, b *buffers, x *vm.Context, stepCap int) (*Obs, error) {
	var err error
	o := &Obs{}
	tr := &tracer{cap: stepCap}
	tr.onStep = func(prev string) {
		if o.BufDiff == "" {
			if d := b.diff(); d != "" {
				o.BufDiff, o.BufAfter = d, prev
			}
		}
	}
	type res struct {
		gas int64
		err error
	}
	ch := make(chan res, 1)
	vm.TraceOut = tr
	go func() {
		g, e := vm.Verify(x, c.Limit)
		ch <- res{g, e}
	}()
	select {
	case r := <-ch:
		vm.TraceOut = nil
		o.Gas, o.Err = r.gas, ErrClass(r.err)
		if r.err != nil {
			o.ErrText = r.err.Error()
			if len(o.ErrText) > 200 {
				o.ErrText = o.ErrText[:200]
			}
		}
	case <-time.After(60 * time.Second):
		o.Hang = true
		o.Err = "hang"
		return o, nil
	}
	if o.BufDiff == "" {
		if d := b.diff(); d != "" {
			o.BufDiff, o.BufAfter = d, tr.last
		}
	}
	// the context still refers to the caller's lists and program
	if o.BufDiff == "" {
		switch {
		case len(x.StateData) != len(b.state) || (len(b.state) > 0 && &x.StateData[0] != &b.state[0]):
			o.BufDiff, o.BufAfter = "the context's StateData no longer is the caller's list", tr.last
		case len(x.Arguments) != len(b.args) || (len(b.args) > 0 && &x.Arguments[0] != &b.args[0]):
			o.BufDiff, o.BufAfter = "the context's Arguments no longer is the caller's list", tr.last
		case len(x.Code) != len(b.prog):
			o.BufDiff, o.BufAfter = "the context's Code changed length", tr.last
		}
	}
	o.NonTerm = tr.over
	raw := tr.buf.String()
	if tr.over {
		// keep whole lines only
		if k := strings.LastIndex(raw, "\n"); k >= 0 {
			raw = raw[:k+1]
		}
		o.Err = "nontermination"
	}
	o.Lines, err = parseTrace(raw)
	if err != nil {
		return nil, err
	}
	for _, l := range o.Lines {
		if l.Header {
			o.NSteps++
		}
	}
	return o, nil
}

// Facts fills the hash and signature tables of the case: true statements about sha256, sha3-256,
// ripemd160 and ed25519 computed with the standard / x/crypto libraries (never with the VM) for
// every byte string that occurs in the case or on a stack of the real execution.
func Facts(c *Case, o *Obs) {
	seen := map[string]bool{}
	var items [][]byte
	add := func(x []byte) {
		if len(x) > 4096 || seen[string(x)] {
			return
		}
		seen[string(x)] = true
		items = append(items, append([]byte{}, x...))
	}
	for _, a := range c.Args {
		add(a)
	}
	for _, a := range c.State {
		add(a)
	}
	add(c.Prog)
	add(c.Ctx.Entry)
	add(c.Ctx.SigHash.V)
	if insts, err := vm.ParseProgram(c.Prog); err == nil {
		for _, i := range insts {
			add(i.Data)
		}
	}
	if o != nil {
		for _, l := range o.Lines {
			if !l.Header {
				add(l.Item)
			}
		}
	}
	sort.Slice(items, func(i, j int) bool { return bytes.Compare(items[i], items[j]) < 0 })
	// facts are only needed if a hashing / signature opcode can be executed at all: its byte must
	// occur in the program or in an item that could be run as a predicate
	has := func(ops ...byte) bool {
		for _, x := range items {
			for _, op := range ops {
				if bytes.IndexByte(x, op) >= 0 {
					return true
				}
			}
		}
		return false
	}
	c.H = []HashFact{}
	c.S = []SigFact{}
	if !has(byte(vm.OP_SHA256), byte(vm.OP_SHA3), byte(vm.OP_HASH160)) {
		items2 := items
		items = nil
		if has2(items2, byte(vm.OP_CHECKSIG), byte(vm.OP_CHECKMULTISIG)) {
			sigFacts(c, items2)
		}
		return
	}
	for _, x := range items {
		s2 := sha256.Sum256(x)
		s3 := sha3.Sum256(x)
		r := ripemd160.New()
		r.Write(x)
		c.H = append(c.H, HashFact{X: x, S256: s2[:], S3: s3[:], R160: r.Sum(nil)})
	}
	if has(byte(vm.OP_CHECKSIG), byte(vm.OP_CHECKMULTISIG)) {
		sigFacts(c, items)
	}
}

func has2(items [][]byte, ops ...byte) bool {
	for _, x := range items {
		for _, op := range ops {
			if bytes.IndexByte(x, op) >= 0 {
				return true
			}
		}
	}
	return false
}

func sigFacts(c *Case, items [][]byte) {
	var k32, k64 [][]byte
	for _, x := range items {
		if len(x) == 32 {
			k32 = append(k32, x)
		}
		if len(x) == 64 {
			k64 = append(k64, x)
		}
	}
	for _, sig := range k64 {
		for _, pk := range k32 {
			for _, msg := range k32 {
				if ed25519.Verify(ed25519.PublicKey(pk), msg, sig) {
					c.S = append(c.S, SigFact{PK: pk, Msg: msg, Sig: sig})
				}
			}
		}
	}
}
