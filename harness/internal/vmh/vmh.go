// Package vmh is the Go side of the VM checks (C06-C08): it concretises a case of
// specs/vm/VMRun.tla into a vm.Context, executes the real protocol/vm code, projects
// the execution (vm.TraceOut step trace, result class, remaining gas, caller-visible
// buffers) and compares it with the reference execution exported by TLC.
// Nothing here knows what an opcode does: expected values only come from TLC.
package vmh

import (
	"bytes"
	"encoding/json"
	"fmt"
	"strconv"
	"strings"

	"github.com/bytom/bytom/errors"
	"github.com/bytom/bytom/math/checked"
	"github.com/bytom/bytom/protocol/vm"
)

// Bytes is a byte string that travels as a JSON array of numbers (what TLC reads and writes).
type Bytes []byte

func (b Bytes) MarshalJSON() ([]byte, error) {
	var sb strings.Builder
	sb.WriteByte('[')
	for i, x := range b {
		if i > 0 {
			sb.WriteByte(',')
		}
		sb.WriteString(strconv.Itoa(int(x)))
	}
	sb.WriteByte(']')
	return []byte(sb.String()), nil
}

func (b *Bytes) UnmarshalJSON(p []byte) error {
	var a []int
	if err := json.Unmarshal(p, &a); err != nil {
		return err
	}
	r := make([]byte, len(a))
	for i, x := range a {
		if x < 0 || x > 255 {
			return fmt.Errorf("byte out of range: %d", x)
		}
		r[i] = byte(x)
	}
	*b = r
	return nil
}

type Opt struct {
	Has bool  `json:"has"`
	V   Bytes `json:"v"`
}

type Out struct {
	Amount Bytes `json:"amount"` // minimal little-endian
	Asset  Bytes `json:"asset"`
	Ver    Bytes `json:"ver"` // minimal little-endian
	Code   Bytes `json:"code"`
}

type CO struct {
	Has  bool  `json:"has"`
	Outs []Out `json:"outs"`
}

type Ctx struct {
	VMVer   int   `json:"vmver"`
	ExpRes  bool  `json:"expres"`
	Entry   Bytes `json:"entry"`
	Asset   Opt   `json:"asset"`
	Amount  Opt   `json:"amount"`  // minimal little-endian uint64
	DestPos Opt   `json:"destpos"` // minimal little-endian uint64
	OutID   Opt   `json:"outid"`
	Height  Opt   `json:"height"` // minimal little-endian uint64
	SigHash Opt   `json:"sighash"`
	CO      CO    `json:"co"`
}

type HashFact struct {
	X    Bytes `json:"x"`
	S256 Bytes `json:"s256"`
	S3   Bytes `json:"s3"`
	R160 Bytes `json:"r160"`
}

type SigFact struct {
	PK  Bytes `json:"pk"`
	Msg Bytes `json:"msg"`
	Sig Bytes `json:"sig"`
}

// Case is the input of vm.Verify as the specification sees it.
type Case struct {
	ID    int        `json:"id"`
	Prog  Bytes      `json:"prog"`
	Args  []Bytes    `json:"args"`
	State []Bytes    `json:"state"`
	Limit int64      `json:"limit"`
	Ctx   Ctx        `json:"ctx"`
	H     []HashFact `json:"H"`
	S     []SigFact  `json:"S"`
	Fam   string     `json:"fam"` // family label for coverage accounting (not read by the spec)
	Cx    int        `json:"cx"`  // on the wire: index of the context in ctxs.ndjson
}

// DefaultCtx: transaction version 1 (expansion reserved), nothing else present.
func DefaultCtx() Ctx {
	return Ctx{VMVer: 1, ExpRes: true, Entry: Bytes{}, Asset: Opt{V: Bytes{}}, Amount: Opt{V: Bytes{}},
		DestPos: Opt{V: Bytes{}}, OutID: Opt{V: Bytes{}}, Height: Opt{V: Bytes{}}, SigHash: Opt{V: Bytes{}},
		CO: CO{Outs: []Out{}}}
}

// Normalize replaces nil slices by empty ones (TLC cannot read JSON null).
func (c *Case) Normalize() {
	if c.Prog == nil {
		c.Prog = Bytes{}
	}
	if c.Args == nil {
		c.Args = []Bytes{}
	}
	if c.State == nil {
		c.State = []Bytes{}
	}
	for i := range c.Args {
		if c.Args[i] == nil {
			c.Args[i] = Bytes{}
		}
	}
	for i := range c.State {
		if c.State[i] == nil {
			c.State[i] = Bytes{}
		}
	}
	if c.H == nil {
		c.H = []HashFact{}
	}
	if c.S == nil {
		c.S = []SigFact{}
	}
	x := &c.Ctx
	if x.VMVer == 0 && x.Entry == nil && x.CO.Outs == nil {
		*x = DefaultCtx()
	}
	for _, o := range []*Opt{&x.Asset, &x.Amount, &x.DestPos, &x.OutID, &x.Height, &x.SigHash} {
		if o.V == nil {
			o.V = Bytes{}
		}
	}
	if x.Entry == nil {
		x.Entry = Bytes{}
	}
	if x.CO.Outs == nil {
		x.CO.Outs = []Out{}
	}
}

func le64(b []byte) uint64 {
	var v uint64
	for i := len(b) - 1; i >= 0; i-- {
		v = v<<8 | uint64(b[i])
	}
	return v
}

// LE returns the minimal little-endian encoding of v.
func LE(v uint64) Bytes {
	r := Bytes{}
	for v > 0 {
		r = append(r, byte(v))
		v >>= 8
	}
	return r
}

// Obs is the projection of one real execution.
type Obs struct {
	Err      string `json:"err"`
	ErrText  string `json:"errtext"`
	Gas      int64  `json:"gas"`
	Lines    []Line `json:"-"`        // the step trace written to vm.TraceOut
	NSteps   int    `json:"nsteps"`   // instructions started
	BufDiff  string `json:"bufdiff"`  // "" or a description of a changed caller-visible buffer
	BufAfter string `json:"bufafter"` // name of the instruction after which the change was first seen
	Hang     bool   `json:"hang"`
	NonTerm  bool   `json:"nonterm"` // more instructions executed than any gas-respecting execution can (aborted)
}

// StepCap: a verification with gas limit L executes at most L instructions if every instruction
// consumes at least one unit; clearly beyond that the execution is aborted and reported.
func StepCap(limit int64) int {
	if limit < 0 {
		limit = 0
	}
	if limit > 4000000 {
		limit = 4000000
	}
	return int(limit+limit/4) + 256
}

type stepCapExceeded struct{}

func (stepCapExceeded) Error() string { return "verif: step cap exceeded" }

var opByName = func() map[string]int {
	m := map[string]int{}
	for i := 0; i < 256; i++ {
		m[vm.Op(i).String()] = i
	}
	return m
}()

// OpName is the implementation's name of an opcode (used in signatures only).
func OpName(op int) string { return vm.Op(op).String() }

// ErrClass maps an error of vm.Verify to the classes of the specification.
func ErrClass(err error) string {
	if err == nil {
		return "none"
	}
	switch errors.Root(err) {
	case vm.ErrFalseVMResult:
		return "false"
	case vm.ErrRunLimitExceeded:
		return "runlimit"
	case vm.ErrDataStackUnderflow, vm.ErrAltStackUnderflow, vm.ErrBadValue, vm.ErrRange:
		return "operand"
	case vm.ErrVerifyFailed:
		return "verify"
	case vm.ErrReturn:
		return "return"
	case vm.ErrDivZero:
		return "divzero"
	case vm.ErrContext:
		return "context"
	case vm.ErrDisallowedOpcode:
		return "disallowed"
	case vm.ErrShortProgram, vm.ErrLongProgram, checked.ErrOverflow:
		return "parse"
	case vm.ErrUnsupportedVM:
		return "unsupported"
	case vm.ErrUnexpected:
		return "unexpected"
	}
	return "other"
}

// SpecClass maps the specification's failure names to the compared classes
// (missing and malformed operands are one class: which of two simultaneous operand
// problems is reported first is not part of the documented behaviour).
func SpecClass(e string) string {
	switch e {
	case "underflow", "altunderflow", "badvalue", "range":
		return "operand"
	}
	return e
}

type tracer struct {
	buf    bytes.Buffer
	onStep func(prevOp string)
	last   string
	steps  int
	cap    int
	over   bool
}

func (t *tracer) Write(p []byte) (int, error) {
	if t.over {
		return len(p), nil
	}
	if bytes.HasPrefix(p, []byte("vm ")) {
		t.steps++
		if t.cap > 0 && t.steps > t.cap {
			// abort the execution: the panic is recovered by vm.Verify itself
			t.over = true
			panic(stepCapExceeded{})
		}
		if t.onStep != nil {
			t.onStep(t.last)
		}
		f := strings.Fields(string(p))
		if len(f) >= 7 {
			t.last = f[6]
		}
	}
	return t.buf.Write(p)
}

// Line is one line of vm.TraceOut output.
type Line struct {
	Header bool
	// header: depth, pc, gas before the instruction, opcode, immediate data
	D, PC int
	Gas   int64
	Op    int
	Name  string
	Data  string // hex
	// stack line: index from the top, item
	Idx  int
	Item Bytes
}

func (l Line) String() string {
	if l.Header {
		s := fmt.Sprintf("vm %d pc %d limit %d %s", l.D, l.PC, l.Gas, l.Name)
		if l.Data != "" {
			s += " " + l.Data
		}
		return s
	}
	return fmt.Sprintf("  stack %d: %x", l.Idx, []byte(l.Item))
}

func parseTrace(s string) ([]Line, error) {
	var lines []Line
	for _, line := range strings.Split(s, "\n") {
		if line == "" {
			continue
		}
		if strings.HasPrefix(line, "vm ") {
			f := strings.Fields(line)
			if len(f) < 7 || f[2] != "pc" || f[4] != "limit" {
				return nil, fmt.Errorf("bad trace line %q", line)
			}
			d, e1 := strconv.Atoi(f[1])
			pc, e2 := strconv.Atoi(f[3])
			gas, e3 := strconv.ParseInt(f[5], 10, 64)
			op, ok := opByName[f[6]]
			if e1 != nil || e2 != nil || e3 != nil || !ok {
				return nil, fmt.Errorf("bad trace line %q", line)
			}
			l := Line{Header: true, D: d, PC: pc, Gas: gas, Op: op, Name: f[6]}
			if len(f) > 7 {
				l.Data = f[7]
			}
			lines = append(lines, l)
			continue
		}
		if strings.HasPrefix(line, "  stack ") {
			rest := strings.TrimPrefix(line, "  stack ")
			k := strings.Index(rest, ":")
			if k < 0 {
				return nil, fmt.Errorf("bad stack line %q", line)
			}
			idx, err := strconv.Atoi(rest[:k])
			if err != nil {
				return nil, fmt.Errorf("bad stack line %q", line)
			}
			hexs := strings.TrimSpace(rest[k+1:])
			item := make([]byte, len(hexs)/2)
			for i := range item {
				v, err := strconv.ParseUint(hexs[2*i:2*i+2], 16, 8)
				if err != nil {
					return nil, fmt.Errorf("bad stack line %q", line)
				}
				item[i] = byte(v)
			}
			lines = append(lines, Line{Idx: idx, Item: item})
			continue
		}
		return nil, fmt.Errorf("unexpected trace line %q", line)
	}
	return lines, nil
}
