// Package wire is the Go image of the abstract values of specs/wire/*.tla:
// JSON shapes exchanged with TLC, concretisation (abstract value -> real
// types.* objects), projection (real objects -> abstract value) and a seeded
// generator of random abstract values. It contains no encoder or decoder of
// its own: bytes only ever come from the repository's code or from TLC.
package wire

import (
	"bytes"
	"encoding/json"
	"fmt"
	"math/rand"

	"github.com/bytom/bytom/protocol/bc"
	"github.com/bytom/bytom/protocol/bc/types"
)

// B is a byte string; JSON form is an array of integers (TLA+ sequence of 0..255).
type B []byte

func (b B) MarshalJSON() ([]byte, error) {
	var buf bytes.Buffer
	buf.WriteByte('[')
	for i, x := range b {
		if i > 0 {
			buf.WriteByte(',')
		}
		fmt.Fprintf(&buf, "%d", x)
	}
	buf.WriteByte(']')
	return buf.Bytes(), nil
}

func (b *B) UnmarshalJSON(p []byte) error {
	var xs []int
	if err := json.Unmarshal(p, &xs); err != nil {
		return err
	}
	out := make([]byte, len(xs))
	for i, x := range xs {
		if x < 0 || x > 255 {
			return fmt.Errorf("byte out of range: %d", x)
		}
		out[i] = byte(x)
	}
	*b = out
	return nil
}

// U is an unsigned 64-bit number; JSON form is its little-endian base-128
// digit string without high zeros (the U64 of Varint.tla).
type U uint64

func (u U) MarshalJSON() ([]byte, error) {
	var ds []int
	for x := uint64(u); x > 0; x >>= 7 {
		ds = append(ds, int(x&0x7f))
	}
	if ds == nil {
		return []byte("[]"), nil
	}
	return json.Marshal(ds)
}

func (u *U) UnmarshalJSON(p []byte) error {
	var ds []int
	if err := json.Unmarshal(p, &ds); err != nil {
		return err
	}
	var x uint64
	for i := len(ds) - 1; i >= 0; i-- {
		if i >= 10 || (i == 9 && ds[i] > 1) || ds[i] < 0 || ds[i] > 127 {
			return fmt.Errorf("not a U64 digit string: %v", ds)
		}
		x = x<<7 | uint64(ds[i])
	}
	*u = U(x)
	return nil
}

// Input / Output / Tx / SupLink / Header / Block mirror the records of WireTx.tla / WireBlock.tla.
type Input struct {
	Av       U      `json:"av"`
	Kind     string `json:"kind"` // issuance | spend | veto | coinbase | ext
	Nonce    B      `json:"nonce"`
	AssetId  B      `json:"assetId"`
	Amount   U      `json:"amount"`
	Def      B      `json:"def"`
	Vmver    U      `json:"vmver"`
	Prog     B      `json:"prog"`
	Args     []B    `json:"args"`
	SrcId    B      `json:"srcId"`
	SrcPos   U      `json:"srcPos"`
	State    []B    `json:"state"`
	Scsuffix B      `json:"scsuffix"`
	Vote     B      `json:"vote"`
	Arb      B      `json:"arb"`
	Csuffix  B      `json:"csuffix"`
	Wsuffix  B      `json:"wsuffix"`
}

type kv struct {
	k string
	v interface{}
}

func obj(fs ...kv) ([]byte, error) {
	var buf bytes.Buffer
	buf.WriteByte('{')
	for i, f := range fs {
		if i > 0 {
			buf.WriteByte(',')
		}
		fmt.Fprintf(&buf, "%q:", f.k)
		b, err := json.Marshal(f.v)
		if err != nil {
			return nil, err
		}
		buf.Write(b)
	}
	buf.WriteByte('}')
	return buf.Bytes(), nil
}

func bl(l []B) []B {
	if l == nil {
		return []B{}
	}
	return l
}
func bb(b B) B {
	if b == nil {
		return B{}
	}
	return b
}

func (i Input) MarshalJSON() ([]byte, error) {
	switch i.Kind {
	case "issuance":
		return obj(kv{"av", i.Av}, kv{"kind", i.Kind}, kv{"nonce", bb(i.Nonce)}, kv{"assetId", bb(i.AssetId)}, kv{"amount", i.Amount},
			kv{"def", bb(i.Def)}, kv{"vmver", i.Vmver}, kv{"prog", bb(i.Prog)}, kv{"args", bl(i.Args)},
			kv{"csuffix", bb(i.Csuffix)}, kv{"wsuffix", bb(i.Wsuffix)})
	case "spend":
		return obj(kv{"av", i.Av}, kv{"kind", i.Kind}, kv{"srcId", bb(i.SrcId)}, kv{"assetId", bb(i.AssetId)}, kv{"amount", i.Amount},
			kv{"srcPos", i.SrcPos}, kv{"vmver", i.Vmver}, kv{"prog", bb(i.Prog)}, kv{"state", bl(i.State)}, kv{"scsuffix", bb(i.Scsuffix)},
			kv{"args", bl(i.Args)}, kv{"csuffix", bb(i.Csuffix)}, kv{"wsuffix", bb(i.Wsuffix)})
	case "veto":
		return obj(kv{"av", i.Av}, kv{"kind", i.Kind}, kv{"srcId", bb(i.SrcId)}, kv{"assetId", bb(i.AssetId)}, kv{"amount", i.Amount},
			kv{"srcPos", i.SrcPos}, kv{"vmver", i.Vmver}, kv{"prog", bb(i.Prog)}, kv{"state", bl(i.State)}, kv{"scsuffix", bb(i.Scsuffix)},
			kv{"vote", bb(i.Vote)}, kv{"args", bl(i.Args)}, kv{"csuffix", bb(i.Csuffix)}, kv{"wsuffix", bb(i.Wsuffix)})
	case "coinbase":
		return obj(kv{"av", i.Av}, kv{"kind", i.Kind}, kv{"arb", bb(i.Arb)}, kv{"csuffix", bb(i.Csuffix)}, kv{"wsuffix", bb(i.Wsuffix)})
	default:
		return obj(kv{"av", i.Av}, kv{"kind", "ext"}, kv{"csuffix", bb(i.Csuffix)}, kv{"wsuffix", bb(i.Wsuffix)})
	}
}

type Output struct {
	Av      U      `json:"av"`
	Kind    string `json:"kind"` // original | vote
	Vote    B      `json:"vote"`
	AssetId B      `json:"assetId"`
	Amount  U      `json:"amount"`
	Vmver   U      `json:"vmver"`
	Prog    B      `json:"prog"`
	State   []B    `json:"state"`
	Csuffix B      `json:"csuffix"`
}

func (o Output) MarshalJSON() ([]byte, error) {
	fs := []kv{{"av", o.Av}, {"kind", o.Kind}}
	if o.Kind == "vote" {
		fs = append(fs, kv{"vote", bb(o.Vote)})
	}
	if o.Av == 1 {
		fs = append(fs, kv{"assetId", bb(o.AssetId)}, kv{"amount", o.Amount}, kv{"vmver", o.Vmver}, kv{"prog", bb(o.Prog)}, kv{"state", bl(o.State)})
	}
	fs = append(fs, kv{"csuffix", bb(o.Csuffix)})
	return obj(fs...)
}

type Tx struct {
	Version   U        `json:"version"`
	TimeRange U        `json:"timeRange"`
	Inputs    []Input  `json:"inputs"`
	Outputs   []Output `json:"outputs"`
}

func (t Tx) MarshalJSON() ([]byte, error) {
	ins, outs := t.Inputs, t.Outputs
	if ins == nil {
		ins = []Input{}
	}
	if outs == nil {
		outs = []Output{}
	}
	return obj(kv{"version", t.Version}, kv{"timeRange", t.TimeRange}, kv{"inputs", ins}, kv{"outputs", outs})
}

type SupLink struct {
	Height U   `json:"height"`
	Hash   B   `json:"hash"`
	Sigs   []B `json:"sigs"`
}

func (s SupLink) MarshalJSON() ([]byte, error) {
	return obj(kv{"height", s.Height}, kv{"hash", bb(s.Hash)}, kv{"sigs", bl(s.Sigs)})
}

type Header struct {
	Version   U         `json:"version"`
	Height    U         `json:"height"`
	Prev      B         `json:"prev"`
	Timestamp U         `json:"timestamp"`
	Root      B         `json:"root"`
	Witness   B         `json:"witness"`
	SupLinks  []SupLink `json:"suplinks"`
}

func (h Header) MarshalJSON() ([]byte, error) {
	sl := h.SupLinks
	if sl == nil {
		sl = []SupLink{}
	}
	return obj(kv{"version", h.Version}, kv{"height", h.Height}, kv{"prev", bb(h.Prev)}, kv{"timestamp", h.Timestamp},
		kv{"root", bb(h.Root)}, kv{"witness", bb(h.Witness)}, kv{"suplinks", sl})
}

type Block struct {
	H   Header `json:"h"`
	Txs []Tx   `json:"txs"`
}

func (b Block) MarshalJSON() ([]byte, error) {
	txs := b.Txs
	if txs == nil {
		txs = []Tx{}
	}
	return obj(kv{"h", b.H}, kv{"txs", txs})
}

// ---------------------------------------------------------------- concretisation

// Empty says how an empty abstract byte string / list is materialised: nil or
// a zero-length non-nil slice. The property does not distinguish them.
type Empty bool

const (
	AsNil   Empty = false
	AsEmpty Empty = true
)

func (e Empty) bytes(b B) []byte {
	if len(b) == 0 {
		if e == AsEmpty {
			return []byte{}
		}
		return nil
	}
	return append([]byte(nil), b...)
}
func (e Empty) list(l []B) [][]byte {
	if len(l) == 0 {
		if e == AsEmpty {
			return [][]byte{}
		}
		return nil
	}
	out := make([][]byte, len(l))
	for i, x := range l {
		out[i] = e.bytes(x)
	}
	return out
}

func hash32(b B) (h [32]byte) { copy(h[:], b); return }

// MkInput builds the real input through the repository's constructor for its kind and
// then sets the fields the constructors do not take.
func MkInput(i Input, e Empty) *types.TxInput {
	var ti *types.TxInput
	switch i.Kind {
	case "issuance":
		ti = types.NewIssuanceInput(e.bytes(i.Nonce), uint64(i.Amount), e.bytes(i.Prog), e.list(i.Args), e.bytes(i.Def))
		ti.TypedInput.(*types.IssuanceInput).VMVersion = uint64(i.Vmver)
	case "spend":
		ti = types.NewSpendInput(e.list(i.Args), bc.NewHash(hash32(i.SrcId)), bc.NewAssetID(hash32(i.AssetId)), uint64(i.Amount),
			uint64(i.SrcPos), e.bytes(i.Prog), e.list(i.State))
		si := ti.TypedInput.(*types.SpendInput)
		si.VMVersion = uint64(i.Vmver)
		si.SpendCommitmentSuffix = e.bytes(i.Scsuffix)
	case "veto":
		ti = types.NewVetoInput(e.list(i.Args), bc.NewHash(hash32(i.SrcId)), bc.NewAssetID(hash32(i.AssetId)), uint64(i.Amount),
			uint64(i.SrcPos), e.bytes(i.Prog), e.bytes(i.Vote), e.list(i.State))
		vi := ti.TypedInput.(*types.VetoInput)
		vi.VMVersion = uint64(i.Vmver)
		vi.VetoCommitmentSuffix = e.bytes(i.Scsuffix)
	case "coinbase":
		ti = types.NewCoinbaseInput(e.bytes(i.Arb))
	default:
		ti = &types.TxInput{}
	}
	ti.AssetVersion = uint64(i.Av)
	ti.CommitmentSuffix = e.bytes(i.Csuffix)
	ti.WitnessSuffix = e.bytes(i.Wsuffix)
	return ti
}

func MkOutput(o Output, e Empty) *types.TxOutput {
	var to *types.TxOutput
	if o.Av == 1 {
		if o.Kind == "vote" {
			to = types.NewVoteOutput(bc.NewAssetID(hash32(o.AssetId)), uint64(o.Amount), e.bytes(o.Prog), e.bytes(o.Vote), e.list(o.State))
		} else {
			to = types.NewOriginalTxOutput(bc.NewAssetID(hash32(o.AssetId)), uint64(o.Amount), e.bytes(o.Prog), e.list(o.State))
		}
		to.VMVersion = uint64(o.Vmver)
	} else {
		// no constructor produces an output of another asset version: take one and strip the commitment
		if o.Kind == "vote" {
			to = types.NewVoteOutput(bc.AssetID{}, 0, nil, e.bytes(o.Vote), nil)
		} else {
			to = types.NewOriginalTxOutput(bc.AssetID{}, 0, nil, nil)
		}
		to.OutputCommitment = types.OutputCommitment{}
	}
	to.AssetVersion = uint64(o.Av)
	to.CommitmentSuffix = e.bytes(o.Csuffix)
	return to
}

func MkTxData(t Tx, e Empty) *types.TxData {
	d := &types.TxData{Version: uint64(t.Version), TimeRange: uint64(t.TimeRange)}
	if e == AsEmpty {
		d.Inputs, d.Outputs = []*types.TxInput{}, []*types.TxOutput{}
	}
	for _, i := range t.Inputs {
		d.Inputs = append(d.Inputs, MkInput(i, e))
	}
	for _, o := range t.Outputs {
		d.Outputs = append(d.Outputs, MkOutput(o, e))
	}
	return d
}

func MkHeader(h Header, e Empty) *types.BlockHeader {
	bh := &types.BlockHeader{
		Version: uint64(h.Version), Height: uint64(h.Height), PreviousBlockHash: bc.NewHash(hash32(h.Prev)),
		Timestamp: uint64(h.Timestamp), BlockWitness: e.bytes(h.Witness),
		BlockCommitment: types.BlockCommitment{TransactionsMerkleRoot: bc.NewHash(hash32(h.Root))},
	}
	if e == AsEmpty {
		bh.SupLinks = types.SupLinks{}
	}
	for _, l := range h.SupLinks {
		sl := &types.SupLink{SourceHeight: uint64(l.Height), SourceHash: bc.NewHash(hash32(l.Hash))}
		for k := range sl.Signatures {
			if k < len(l.Sigs) {
				sl.Signatures[k] = e.bytes(l.Sigs[k])
			}
		}
		bh.SupLinks = append(bh.SupLinks, sl)
	}
	return bh
}

// ---------------------------------------------------------------- projection

func pl(l [][]byte) []B {
	out := make([]B, len(l))
	for i, x := range l {
		out[i] = B(append([]byte{}, x...))
	}
	return out
}
func h32(h bc.Hash) B      { b := h.Byte32(); return B(b[:]) }
func a32(a bc.AssetID) B   { b := a.Byte32(); return B(b[:]) }
func pb(b []byte) B        { return B(append([]byte{}, b...)) }
func aid(a *bc.AssetID) B {
	if a == nil {
		return B{}
	}
	return a32(*a)
}

func PrInput(ti *types.TxInput) Input {
	i := Input{Av: U(ti.AssetVersion), Csuffix: pb(ti.CommitmentSuffix), Wsuffix: pb(ti.WitnessSuffix)}
	switch t := ti.TypedInput.(type) {
	case *types.IssuanceInput:
		i.Kind = "issuance"
		i.Nonce, i.AssetId, i.Amount = pb(t.Nonce), a32(t.AssetID()), U(t.Amount)
		i.Def, i.Vmver, i.Prog, i.Args = pb(t.AssetDefinition), U(t.VMVersion), pb(t.IssuanceProgram), pl(t.Arguments)
	case *types.SpendInput:
		i.Kind = "spend"
		i.SrcId, i.AssetId, i.Amount, i.SrcPos = h32(t.SourceID), aid(t.AssetId), U(t.Amount), U(t.SourcePosition)
		i.Vmver, i.Prog, i.State, i.Scsuffix, i.Args = U(t.VMVersion), pb(t.ControlProgram), pl(t.StateData), pb(t.SpendCommitmentSuffix), pl(t.Arguments)
	case *types.VetoInput:
		i.Kind = "veto"
		i.SrcId, i.AssetId, i.Amount, i.SrcPos = h32(t.SourceID), aid(t.AssetId), U(t.Amount), U(t.SourcePosition)
		i.Vmver, i.Prog, i.State, i.Scsuffix, i.Args = U(t.VMVersion), pb(t.ControlProgram), pl(t.StateData), pb(t.VetoCommitmentSuffix), pl(t.Arguments)
		i.Vote = pb(t.Vote)
	case *types.CoinbaseInput:
		i.Kind = "coinbase"
		i.Arb = pb(t.Arbitrary)
	default:
		i.Kind = "ext"
	}
	return i
}

func PrOutput(to *types.TxOutput) Output {
	o := Output{Av: U(to.AssetVersion), Kind: "original", Csuffix: pb(to.CommitmentSuffix)}
	if v, ok := to.TypedOutput.(*types.VoteOutput); ok {
		o.Kind = "vote"
		o.Vote = pb(v.Vote)
	}
	if to.AssetVersion == 1 {
		o.AssetId, o.Amount, o.Vmver, o.Prog, o.State = aid(to.AssetId), U(to.Amount), U(to.VMVersion), pb(to.ControlProgram), pl(to.StateData)
	}
	return o
}

func PrTx(d *types.TxData) Tx {
	t := Tx{Version: U(d.Version), TimeRange: U(d.TimeRange), Inputs: []Input{}, Outputs: []Output{}}
	for _, i := range d.Inputs {
		t.Inputs = append(t.Inputs, PrInput(i))
	}
	for _, o := range d.Outputs {
		t.Outputs = append(t.Outputs, PrOutput(o))
	}
	return t
}

func PrHeader(bh *types.BlockHeader) Header {
	h := Header{Version: U(bh.Version), Height: U(bh.Height), Prev: h32(bh.PreviousBlockHash), Timestamp: U(bh.Timestamp),
		Root: h32(bh.TransactionsMerkleRoot), Witness: pb(bh.BlockWitness), SupLinks: []SupLink{}}
	for _, l := range bh.SupLinks {
		s := SupLink{Height: U(l.SourceHeight), Hash: h32(l.SourceHash)}
		for _, g := range l.Signatures {
			s.Sigs = append(s.Sigs, pb(g))
		}
		h.SupLinks = append(h.SupLinks, s)
	}
	return h
}

func PrBlock(b *types.Block) Block {
	out := Block{H: PrHeader(&b.BlockHeader), Txs: []Tx{}}
	for _, t := range b.Transactions {
		out.Txs = append(out.Txs, PrTx(&t.TxData))
	}
	return out
}

// RealAssetIDs replaces the asset id of every issuance input by the id the
// repository computes from (program, vm version, definition): the concretisation
// of the hash function the specification leaves uninterpreted. It returns the
// (old, new) pairs so that encodings produced by TLC can be rewritten too.
func RealAssetIDs(t *Tx) (pairs [][2]B) {
	for k := range t.Inputs {
		if t.Inputs[k].Kind != "issuance" {
			continue
		}
		ti := MkInput(t.Inputs[k], AsNil)
		real := a32(ti.TypedInput.(*types.IssuanceInput).AssetID())
		if !bytes.Equal(real, t.Inputs[k].AssetId) {
			pairs = append(pairs, [2]B{t.Inputs[k].AssetId, real})
			t.Inputs[k].AssetId = real
		}
	}
	return
}

// Subst rewrites every occurrence of the placeholder ids in an encoding.
func Subst(b []byte, pairs [][2]B) []byte {
	for _, p := range pairs {
		b = bytes.Replace(b, p[0], p[1], -1)
	}
	return b
}

// ---------------------------------------------------------------- random abstract values

type Gen struct{ R *rand.Rand }

func (g Gen) u64() U {
	switch g.R.Intn(10) {
	case 0:
		return 0
	case 1:
		return 1
	case 2:
		return U(127 + g.R.Intn(3))
	case 3:
		return U(uint64(1)<<31 - 2 + uint64(g.R.Intn(4)))
	case 4:
		return U(uint64(1)<<63 - 1 - uint64(g.R.Intn(2)))
	case 5:
		return U(uint64(1) << uint(7*g.R.Intn(9)))
	case 6:
		return U(uint64(1)<<uint(7*(1+g.R.Intn(9))) - 1)
	default:
		return U(g.R.Uint64() >> uint(1+g.R.Intn(63)))
	}
}

func (g Gen) bytes(max int) B {
	n := 0
	switch g.R.Intn(12) {
	case 0, 1, 2:
		n = 0
	case 3:
		n = 127
	case 4:
		n = 128
	case 5:
		n = 129 + g.R.Intn(120)
	default:
		n = 1 + g.R.Intn(max)
	}
	b := make(B, n)
	for i := range b {
		switch g.R.Intn(4) {
		case 0:
			b[i] = []byte{0, 0x7f, 0x80, 0xff}[g.R.Intn(4)]
		default:
			b[i] = byte(g.R.Intn(256))
		}
	}
	return b
}
func (g Gen) suffix() B {
	if g.R.Intn(3) > 0 {
		return B{}
	}
	n := 1 + g.R.Intn(5)
	b := make(B, n)
	g.R.Read(b)
	return b
}
func (g Gen) list() []B {
	n := 0
	if g.R.Intn(2) == 0 {
		n = g.R.Intn(4)
	}
	l := make([]B, n)
	for i := range l {
		if g.R.Intn(3) == 0 {
			l[i] = B{}
		} else {
			l[i] = g.bytes(12)
			if len(l[i]) > 130 {
				l[i] = l[i][:130]
			}
		}
	}
	return l
}
func (g Gen) hash() B {
	b := make(B, 32)
	switch g.R.Intn(4) {
	case 0:
	case 1:
		for i := range b {
			b[i] = 0xff
		}
	default:
		g.R.Read(b)
	}
	return b
}

// Input returns a random well-formed input (asset version 1).
func (g Gen) Input() Input {
	i := Input{Av: 1, Csuffix: g.suffix(), Wsuffix: g.suffix()}
	switch g.R.Intn(4) {
	case 0:
		i.Kind = "issuance"
		i.Nonce, i.Amount, i.Def, i.Vmver, i.Prog, i.Args = g.bytes(10), g.u64()&(1<<63-1), g.bytes(30), g.u64()&(1<<63-1), g.bytes(30), g.list()
		i.AssetId = make(B, 32)
	case 1, 2:
		i.Kind = "spend"
		if g.R.Intn(3) == 0 {
			i.Kind = "veto"
			i.Vote = g.bytes(64)
		}
		i.SrcId, i.AssetId, i.Amount, i.SrcPos = g.hash(), g.hash(), g.u64()&(1<<63-1), g.u64()&(1<<63-1)
		i.Vmver, i.Prog, i.State, i.Scsuffix, i.Args = 1, g.bytes(40), g.list(), g.suffix(), g.list()
	default:
		i.Kind = "coinbase"
		i.Arb = g.bytes(20)
	}
	return i
}

func (g Gen) Output() Output {
	o := Output{Av: 1, Kind: "original", Csuffix: g.suffix()}
	if g.R.Intn(3) == 0 {
		o.Kind = "vote"
		o.Vote = g.bytes(64)
	}
	if g.R.Intn(8) == 0 {
		o.Av = []U{0, 2, 3, 1 << 62}[g.R.Intn(4)]
		return o
	}
	o.AssetId, o.Amount, o.Vmver, o.Prog, o.State = g.hash(), g.u64()&(1<<63-1), 1, g.bytes(40), g.list()
	if g.R.Intn(10) == 0 {
		o.Prog = append(B{0x6a}, o.Prog...) // unspendable: mapped to a retirement
	}
	return o
}

func (g Gen) Tx(maxIO int) Tx {
	t := Tx{Version: g.u64() & (1<<63 - 1), TimeRange: g.u64() & (1<<63 - 1), Inputs: []Input{}, Outputs: []Output{}}
	for n := g.R.Intn(maxIO + 1); n > 0; n-- {
		t.Inputs = append(t.Inputs, g.Input())
	}
	for n := g.R.Intn(maxIO + 1); n > 0; n-- {
		t.Outputs = append(t.Outputs, g.Output())
	}
	return t
}

func (g Gen) Header() Header {
	h := Header{Version: g.u64() & (1<<63 - 1), Height: g.u64() & (1<<63 - 1), Prev: g.hash(), Timestamp: g.u64() & (1<<63 - 1),
		Root: g.hash(), Witness: B{}, SupLinks: []SupLink{}}
	if g.R.Intn(4) > 0 {
		h.Witness = make(B, 64)
		g.R.Read(h.Witness)
	} else {
		h.Witness = g.bytes(20)
	}
	for n := g.R.Intn(4) * g.R.Intn(2); n > 0; n-- {
		l := SupLink{Height: g.u64() & (1<<63 - 1), Hash: g.hash()}
		for k := 0; k < 10; k++ {
			s := B{}
			if g.R.Intn(3) == 0 {
				s = make(B, []int{64, 64, 64, 1, 3}[g.R.Intn(5)])
				g.R.Read(s)
			}
			l.Sigs = append(l.Sigs, s)
		}
		h.SupLinks = append(h.SupLinks, l)
	}
	return h
}

func (g Gen) Block() Block {
	b := Block{H: g.Header(), Txs: []Tx{}}
	for n := g.R.Intn(4); n > 0; n-- {
		b.Txs = append(b.Txs, g.Tx(2))
	}
	return b
}
