#!/bin/sh
# Offline set-up after a fresh restore: build every harness command once (warms the Go
# build cache), parse every specification with SANY. No network is used.
set -e
cd "$(dirname "$0")"
export GOFLAGS=-mod=mod GOPROXY=off GOSUMDB=off GOTOOLCHAIN=local
mkdir -p work/bin evidence
cat /repo/go.sum harness/go.sum 2>/dev/null | sort -u > work/go.sum.merged && cp work/go.sum.merged harness/go.sum
(cd harness && for d in cmd/*/; do n=$(basename $d); go build -tags verif -o ../work/bin/$n ./cmd/$n || exit 1; done)
mkdir -p work/sany && find specs -name '*.tla' -exec cp {} work/sany/ \;
(cd work/sany && for f in *.tla; do timeout 120 java -cp /opt/veriftools/tla/tla2tools.jar:/opt/veriftools/tla/CommunityModules-deps.jar tla2sany.SANY "$f" > "$f.sany" 2>&1 || { cat "$f.sany"; echo "SANY failed on $f"; exit 1; }; done)
echo "setup ok"
