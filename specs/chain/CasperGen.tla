----------------------------- MODULE CasperGen -----------------------------
(* Export of every explored transition of CasperNode: the call path that reaches *)
(* it (with the expected result of every call) and the expected observable state *)
(* after the last call. Every prefix of an exported path is itself exported, so  *)
(* intermediate states are compared by the shorter paths.                        *)
EXTENDS CasperNode, Json
VARIABLE hist
Obs == [stored |-> stored, orphans |-> Orphans(prevOrph), best |-> best,
        idx |-> [h \in 0..MaxHeight |-> mainIdx[h]],
        inmain |-> {b \in stored : InMain(b)},
        root |-> root,
        status |-> [b \in stored |-> status[b]],
        links |-> links,
        posted |-> posted,
        devs |-> devs,
        ticks |-> Len(ticks)]
IsCall(op) == op \in {"deliver", "vote", "tick", "restart"}
GInit == Init /\ hist = <<>>
GNext == /\ Next
         /\ hist' = IF last'.op = "endmint" THEN hist ELSE Append(hist, last')
(* state constraint (always TRUE): evaluated once per generated successor, i.e. per transition *)
CONSTANT ExportAt   \* 0: every transition; k > 0: only states with k completed calls (ends of random walks)
Export == (IsCall(last.op) /\ (ExportAt = 0 \/ (ncalls = ExportAt /\ ticks = <<>>))) => PrintT("EXPORT " \o ToJson([calls |-> hist, obs |-> Obs]))
GView == View
=============================================================================
