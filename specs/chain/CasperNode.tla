----------------------------- MODULE CasperNode -----------------------------
(* The node with its finality engine (protocol/block.go, protocol/casper):       *)
(* block tree with orphans, checkpoint statuses, verification messages          *)
(* (delivered directly, carried in block headers, produced by the node itself,  *)
(* or parked in the cache until their target is known), justification,          *)
(* finalisation, Casper fork choice and the main-chain index.                   *)
(*                                                                              *)
(* Blocks are coinbase-only, the validator set is the federation (orders        *)
(* 0..N-1). The environment mints the block tree first, then makes votes and    *)
(* delivers blocks and votes in any order. One Deliver / DeliverVote is one     *)
(* public call; EpochTick is the asynchronous loop that authenticates cached    *)
(* votes when the first block of the next epoch arrives (held at a gate by the  *)
(* replay harness so that it runs right after the call that triggered it).      *)
EXTENDS Integers, Sequences, FiniteSets, TLC

CONSTANTS E,          \* blocks per epoch
          N,          \* number of validators (orders 0..N-1)
          Me,         \* order of the node's own key, -1 when it is not a validator
          MaxBlocks, MaxHeight, MaxVotes, MaxCalls,
          MaxRestarts, \* clean restarts of the node (close, reopen on the stored records) per behaviour
          Byz,        \* validators allowed to sign anything (others are honest)
          Shape,      \* "free": any tree; "two": at most two branches from genesis, blocks only extend tips (deep histories)
          FullMint,   \* TRUE: the environment always mints MaxBlocks blocks and signs as many votes as fit (random deep walks)
          InOrder,    \* TRUE: blocks are delivered parents first and once (no orphans; for deep histories)
          Quorum,     \* TRUE: honest validators may sign one link together in one environment step
          DevUnjustifiedSource  \* TRUE: mirror the code, which justifies a target from any source that is not yet finalized
                                \* (the property demands a *justified* source); every such step is recorded in `devs`

Vals == 0..(N - 1)

VARIABLES blk,      \* Seq([p, h, car]): minted blocks; car = set of vote ids carried in the header
          byh,      \* [1..MaxHeight -> Seq(id)] ids per height in ascending hash order
          votes,    \* Seq([v, s, t, ok]) verification messages made by the environment
          phase,    \* "mint" | "votes" | "run": the environment mints the tree, then signs votes, then delivers
          \* ---- node
          stored, prevOrph, best, mainIdx,
          root,     \* last finalized checkpoint (root of the checkpoint tree)
          status,   \* [id -> "N"|"U"|"J"|"F"] checkpoint status of stored epoch-boundary blocks
          links,    \* set of [t, s, v]: verifications admitted into checkpoint t
          hdr,      \* set of [t, s, v, ok]: signature slots present in the stored header of t
          vcache,   \* set of [t, v, s, ok]: messages parked until t is known (one per (t, v))
          ticks,    \* Seq(id): epoch hashes queued for the cached-verification loop
          posted,   \* Seq([v, s, t]): verification events the node posted (own votes and relayed ones)
          everF,    \* ghost: every checkpoint that ever was finalized
          proot,    \* finalized checkpoint as persisted with the chain status (written only when the best block changes)
          nrestarts,
          vseen,    \* vote ids already delivered (tracked in InOrder mode only, where each vote is delivered once)
          devs,     \* ghost: justifications [t, s] the code made from a source that was not justified (known deviation)
          ncalls, last

nvars == <<stored, prevOrph, best, mainIdx, root, status, links, hdr, vcache, ticks, posted, everF, devs>>
rvars == <<proot, nrestarts>>
vars == <<blk, byh, votes, phase, nvars, rvars, vseen, ncalls, last>>

Ids == 1..Len(blk)
Parent(b) == IF b = 0 THEN 0 ELSE blk[b].p
Height(b) == IF b = 0 THEN 0 ELSE blk[b].h
IsCp(b) == Height(b) % E = 0

RECURSIVE Anc(_, _)
Anc(b, h) == IF Height(b) <= h THEN b ELSE Anc(Parent(b), h)
IsAncestor(a, b) == Height(a) <= Height(b) /\ Anc(b, Height(a)) = a
Cp(b) == Anc(b, (Height(b) \div E) * E)               \* epoch boundary at or below b
CpParent(c) == IF c = 0 THEN 0 ELSE Cp(Parent(c))      \* parent checkpoint of checkpoint c (or of any block)

PosIn(q, x) == CHOOSE i \in 1..Len(q) : q[i] = x
HashLess(a, b) == PosIn(byh[Height(a)], a) < PosIn(byh[Height(b)], b)
InsertAt(q, i, x) == SubSeq(q, 1, i) \o <<x>> \o SubSeq(q, i + 1, Len(q))
Orphans(po) == UNION {{po[p][i] : i \in 1..Len(po[p])} : p \in DOMAIN po}

-----------------------------------------------------------------------------
(* Fork choice: among the stored descendants of the finalized root, the block  *)
(* whose path holds the highest justified checkpoint, then the highest, then   *)
(* the one with the largest hash.                                              *)
InTree(rt, b) == IsAncestor(rt, b)
JH(st, rt, b) ==
  LET S == {c \in 0..Len(blk) : IsCp(c) /\ IsAncestor(c, b) /\ IsAncestor(rt, c) /\ st[c] = "J"} IN
  IF S = {} THEN Height(rt)
  ELSE LET m == CHOOSE c \in S : \A d \in S : Height(d) <= Height(c) IN
       IF Height(m) > Height(rt) THEN Height(m) ELSE Height(rt)
Better(st, rt, a, b) ==
  \/ JH(st, rt, a) > JH(st, rt, b)
  \/ JH(st, rt, a) = JH(st, rt, b) /\ Height(a) > Height(b)
  \/ JH(st, rt, a) = JH(st, rt, b) /\ Height(a) = Height(b) /\ HashLess(b, a)
BestOf(S, st, rt) == LET C == {b \in S : InTree(rt, b)} IN
                     CHOOSE a \in C : \A b \in C \ {a} : Better(st, rt, a, b)

MainIdxFor(b, old) == [h \in 0..MaxHeight |-> IF h <= Height(b) THEN Anc(b, h) ELSE old[h]]

-----------------------------------------------------------------------------
(* Admission rules for one verification [v, s, t, ok] against node state n *)
SigOrders(H, c) == {x.v : x \in {y \in H : y.t = c}}

(* another stored checkpoint of t's height (inside or outside the tree) already holds an admitted verification *)
(* of v. The node consults the stored headers; since only admitted signatures are stored in a header, these   *)
(* are exactly the admitted links (before that repair the raw slots, garbage included, were consulted).       *)
SameHeightConflict(n, v, t) ==
  \E c \in n.stored : IsCp(c) /\ c # t /\ Height(c) = Height(t) /\ \E l \in n.links : l.t = c /\ l.v = v

SpanConflict(n, v, s, t) ==      \* a vote of v in the tree surrounds, or lies inside, s -> t
  \E l \in n.links : /\ l.v = v /\ InTree(n.root, l.t) /\ Height(l.t) # Height(t)
                     /\ \/ Height(l.t) < Height(t) /\ Height(l.s) > Height(s)
                        \/ Height(l.t) > Height(t) /\ Height(l.s) < Height(s)

VerOk(n, v, s, t, ok) ==
  /\ ok /\ IsCp(s) /\ IsCp(t) /\ Height(s) < Height(t)
  /\ ~SameHeightConflict(n, v, t) /\ ~SpanConflict(n, v, s, t)

Majority(k) == k > (N * 2) \div 3

(* add one admitted verification to checkpoint t; justify / finalize as the rule says *)
AddVer(n, v, s, t) ==
  LET ln == n.links \cup {[t |-> t, s |-> s, v |-> v]}
      cnt == Cardinality({x \in ln : x.t = t /\ x.s = s})
      intended == n.status[t] = "U" /\ Majority(cnt) /\ n.status[s] = "J"
      ascode == n.status[t] = "U" /\ Majority(cnt) /\ n.status[s] # "F"
      just == IF DevUnjustifiedSource THEN ascode ELSE intended
      fin == just /\ CpParent(t) = s
      st1 == IF just THEN [n.status EXCEPT ![t] = "J"] ELSE n.status
      st2 == IF fin THEN [st1 EXCEPT ![s] = "F"] ELSE st1
  IN [n EXCEPT !.links = ln, !.status = st2,
               !.root = IF fin /\ InTree(n.root, s) THEN s ELSE n.root,
               !.everF = IF fin THEN n.everF \cup {s} ELSE n.everF,
               !.devs = IF just /\ ~intended THEN n.devs \cup {[t |-> t, s |-> s]} ELSE n.devs]

(* the verifications of one header/source processed in validator order *)
RECURSIVE AddMany(_, _, _, _)
AddMany(n, vs, s, t) ==   \* vs: set of validators, lowest order first
  IF vs = {} THEN n
  ELSE LET v == CHOOSE x \in vs : \A y \in vs : x <= y IN
       AddMany(AddVer(n, v, s, t), vs \ {v}, s, t)

(* Casper.applySupLinks for boundary block t whose header slots are H (set of [s, v, ok]) *)
RECURSIVE ApplyHeader(_, _, _, _)
ApplyHeader(n, t, H, srcs) ==   \* srcs: sequence of distinct sources in header order
  IF srcs = <<>> THEN n
  ELSE LET s == Head(srcs)
           good == {x.v : x \in {y \in H : y.s = s /\ VerOk(n, y.v, s, t, y.ok)}}
       IN ApplyHeader(AddMany(n, good, s, t), t, H, Tail(srcs))

(* the node's own verification for a new checkpoint t *)
LastJustified(n, t) ==   \* nearest proper ancestor checkpoint with status J, inside the tree
  LET S == {c \in 0..Len(blk) : IsCp(c) /\ c # t /\ IsAncestor(c, t) /\ InTree(n.root, c) /\ n.status[c] = "J"} IN
  IF S = {} THEN -1 ELSE CHOOSE c \in S : \A d \in S : Height(d) <= Height(c)

MyVote(n, t) ==
  LET s == LastJustified(n, t) IN
  IF Me \in Vals /\ s # -1 /\ VerOk(n, Me, s, t, TRUE) THEN s ELSE -1

(* carried header sources of block b in ascending vote-id order *)
RECURSIVE SrcSeq(_, _)
SrcSeq(ids, acc) == IF ids = {} THEN acc
                    ELSE LET i == CHOOSE x \in ids : \A y \in ids : x <= y
                             s == votes[i].s IN
                         SrcSeq(ids \ {i}, IF \E k \in 1..Len(acc) : acc[k] = s THEN acc ELSE Append(acc, s))

(* Chain.saveBlock(b) with Parent(b) stored. Returns [n, ok]. *)
SaveBlock(n, b) ==
  LET p == Parent(b)
      n0 == IF Height(b) % E = 1 THEN [n EXCEPT !.ticks = Append(@, p)] ELSE n
  IN IF ~InTree(n.root, Cp(p)) THEN [n |-> n0, ok |-> FALSE]
     ELSE IF ~IsCp(b) THEN [n |-> [n0 EXCEPT !.stored = @ \cup {b}], ok |-> TRUE]
     ELSE LET n1 == [n0 EXCEPT !.stored = @ \cup {b}, !.status = [@ EXCEPT ![b] = "U"]]
              car == {[s |-> votes[i].s, v |-> votes[i].v, ok |-> votes[i].ok] : i \in blk[b].car}
              mys == MyVote(n1, b)
              H == IF mys = -1 THEN car
                   ELSE {x \in car : ~(x.s = mys /\ x.v = Me)} \cup {[s |-> mys, v |-> Me, ok |-> TRUE]}
              srcs0 == SrcSeq(blk[b].car, <<>>)
              srcs == IF mys = -1 \/ (\E k \in 1..Len(srcs0) : srcs0[k] = mys) THEN srcs0 ELSE Append(srcs0, mys)
              n2 == [n1 EXCEPT !.posted = IF mys = -1 THEN @ ELSE Append(@, [v |-> Me, s |-> mys, t |-> b])]
          IN [n |-> ApplyHeader(n2, b, H, srcs), ok |-> TRUE]

(* Chain.saveSubBlock: connect the orphans waiting on b, depth first, in arrival order *)
RECURSIVE SaveSub(_, _)
RECURSIVE SaveSubList(_, _)
SaveSubList(n, q) ==
  IF q = <<>> THEN n
  ELSE LET o == Head(q)
           nd == [n EXCEPT !.prevOrph = [x \in DOMAIN @ |-> IF x = Parent(o) THEN SelectSeq(@[x], LAMBDA y : y # o) ELSE @[x]]]
           r == SaveBlock(n, o) IN
       IF r.ok
         THEN SaveSubList(SaveSub([r.n EXCEPT !.prevOrph = nd.prevOrph], o), Tail(q))
         ELSE SaveSubList(r.n, Tail(q))
SaveSub(n, b) == SaveSubList(n, n.prevOrph[b])

NodeRec == [stored |-> stored, prevOrph |-> prevOrph, root |-> root, status |-> status, links |-> links,
            hdr |-> hdr, ticks |-> ticks, posted |-> posted, everF |-> everF, devs |-> devs]

SetNode(n) == /\ stored' = n.stored /\ prevOrph' = n.prevOrph /\ root' = n.root /\ status' = n.status
              /\ links' = n.links /\ hdr' = n.hdr /\ ticks' = n.ticks /\ posted' = n.posted /\ everF' = n.everF
              /\ devs' = n.devs

-----------------------------------------------------------------------------
Init == /\ blk = <<>> /\ byh = [h \in 1..MaxHeight |-> <<>>] /\ votes = <<>> /\ phase = "mint"
        /\ stored = {0} /\ prevOrph = [b \in 0..MaxBlocks |-> <<>>] /\ best = 0
        /\ mainIdx = [h \in 0..MaxHeight |-> IF h = 0 THEN 0 ELSE -1]
        /\ root = 0 /\ status = [b \in 0..MaxBlocks |-> IF b = 0 THEN "J" ELSE "N"]
        /\ links = {} /\ hdr = {} /\ vcache = {} /\ ticks = <<>> /\ posted = <<>> /\ everF = {} /\ devs = {}
        /\ proot = 0 /\ nrestarts = 0
        /\ vseen = {} /\ ncalls = 0 /\ last = [op |-> "init"]

Mint(p, pos) ==
  /\ phase = "mint" /\ Len(blk) < MaxBlocks /\ Height(p) < MaxHeight
  /\ (Shape = "free" /\ Len(blk) > 0) => p >= blk[Len(blk)].p     \* canonical labelling: parents in non-decreasing order
  /\ (Shape = "two") => \/ p = 0 /\ Cardinality({i \in Ids : blk[i].p = 0}) < 2
                        \/ p # 0 /\ ~\E i \in Ids : blk[i].p = p
  /\ LET h == Height(p) + 1  id == Len(blk) + 1 IN
     /\ pos \in 0..Len(byh[h])
     /\ blk' = Append(blk, [p |-> p, h |-> h, car |-> {}])
     /\ byh' = [byh EXCEPT ![h] = InsertAt(@, pos, id)]
     /\ last' = [op |-> "mint", id |-> id, p |-> p, pos |-> pos]
  /\ UNCHANGED <<votes, phase, nvars, rvars, vseen, ncalls>>

EndMint == /\ phase = "mint" /\ Len(blk) >= 1 /\ (FullMint => Len(blk) = MaxBlocks) /\ phase' = "votes" /\ last' = [op |-> "endmint"]
           /\ UNCHANGED <<blk, byh, votes, nvars, rvars, vseen, ncalls>>
EndVotes == /\ phase = "votes" /\ (FullMint => Len(votes) + N > MaxVotes) /\ phase' = "run" /\ last' = [op |-> "endmint"]
            /\ UNCHANGED <<blk, byh, votes, nvars, rvars, vseen, ncalls>>

(* honest validators: source globally justified (by the votes made so far), ancestor of the target, *)
(* and no slashable pair with their earlier votes; Byzantine ones sign anything                      *)
RECURSIVE GJust(_)
GJust(c) == \/ c = 0
            \/ \E s \in 0..Len(blk) : /\ IsCp(s) /\ Height(s) < Height(c) /\ IsAncestor(s, c) /\ GJust(s)
                  /\ Majority(Cardinality({votes[i].v : i \in {j \in 1..Len(votes) : votes[j].s = s /\ votes[j].t = c /\ votes[j].ok}}))
Slashable(v, s, t) == \E i \in 1..Len(votes) : /\ votes[i].v = v /\ votes[i].ok
      /\ \/ Height(votes[i].t) = Height(t) /\ votes[i].t # t
         \/ Height(votes[i].s) < Height(s) /\ Height(t) < Height(votes[i].t)
         \/ Height(s) < Height(votes[i].s) /\ Height(votes[i].t) < Height(t)
HonestVote(v, s, t) == IsAncestor(s, t) /\ GJust(s) /\ ~Slashable(v, s, t)

(* votes are made in one canonical order (target height, target, source, validator): the order in which the *)
(* environment signs them is irrelevant to the node, only the delivery order matters                         *)
VoteLeq(a, b) ==
  LET ka == <<Height(a.t), a.t, a.s, a.v, IF a.ok THEN 1 ELSE 0>>
      kb == <<Height(b.t), b.t, b.s, b.v, IF b.ok THEN 1 ELSE 0>>
      d == {i \in 1..5 : ka[i] # kb[i]} IN
  d = {} \/ LET i == CHOOSE x \in d : \A y \in d : x <= y IN ka[i] < kb[i]

MakeVote(v, s, t, ok) ==
  /\ phase = "votes" /\ Len(votes) < MaxVotes /\ v \in Vals /\ v # Me
  /\ s \in {0} \cup Ids /\ t \in Ids /\ IsCp(s) /\ IsCp(t) /\ Height(s) < Height(t)
  /\ (v \notin Byz) => (ok /\ HonestVote(v, s, t))
  /\ ~\E i \in 1..Len(votes) : votes[i] = [v |-> v, s |-> s, t |-> t, ok |-> ok]
  /\ (~Quorum /\ Len(votes) > 0) => VoteLeq(votes[Len(votes)], [v |-> v, s |-> s, t |-> t, ok |-> ok])   \* canonical order
  /\ votes' = Append(votes, [v |-> v, s |-> s, t |-> t, ok |-> ok])
  /\ last' = [op |-> "makevote", id |-> Len(votes) + 1, v |-> v, s |-> s, t |-> t, ok |-> ok]
  /\ UNCHANGED <<blk, byh, phase, nvars, rvars, vseen, ncalls>>

(* every honest validator (other than the node) that may sign s -> t does so in one step *)
RECURSIVE AppendVotes(_, _, _, _)
AppendVotes(q, vs, s, t) == IF vs = {} THEN q
                            ELSE LET v == CHOOSE x \in vs : \A y \in vs : x <= y IN
                                 AppendVotes(Append(q, [v |-> v, s |-> s, t |-> t, ok |-> TRUE]), vs \ {v}, s, t)
MakeQuorum(s, t) ==
  /\ Quorum /\ phase = "votes"
  /\ s \in {0} \cup Ids /\ t \in Ids /\ IsCp(s) /\ IsCp(t) /\ Height(s) < Height(t)
  /\ LET Q == {v \in Vals \ ({Me} \cup Byz) : HonestVote(v, s, t)
                    /\ ~\E i \in 1..Len(votes) : votes[i].v = v /\ votes[i].s = s /\ votes[i].t = t} IN
     /\ Q # {} /\ Len(votes) + Cardinality(Q) <= MaxVotes
     /\ votes' = AppendVotes(votes, Q, s, t)
     /\ last' = [op |-> "makequorum", id |-> Len(votes) + 1, vs |-> Q, s |-> s, t |-> t]
  /\ UNCHANGED <<blk, byh, phase, nvars, rvars, vseen, ncalls>>

(* a proposer may put known votes for the block itself into its header before it is first delivered *)
Carry(b, i) ==
  /\ phase = "run" /\ b \in Ids /\ i \in 1..Len(votes) /\ votes[i].t = b /\ i \notin blk[b].car
  /\ IsAncestor(votes[i].s, b)
  /\ ~\E j \in blk[b].car : votes[j].v = votes[i].v /\ votes[j].s = votes[i].s   \* one signature slot per (source, validator)
  /\ b \notin stored /\ b \notin Orphans(prevOrph)
  /\ blk' = [blk EXCEPT ![b].car = @ \cup {i}]
  /\ last' = [op |-> "carry", b |-> b, vote |-> i]
  /\ UNCHANGED <<byh, votes, phase, nvars, rvars, vseen, ncalls>>

Reorg(n) == LET nb == BestOf(n.stored, n.status, n.root) IN
            /\ best' = nb /\ mainIdx' = IF nb = best THEN mainIdx ELSE MainIdxFor(nb, mainIdx)

NoTick == ticks = <<>>

(* Chain.ProcessBlock(b) *)
Deliver(b) ==
  /\ phase = "run" /\ NoTick /\ ncalls < MaxCalls /\ b \in Ids
  /\ InOrder => (Parent(b) \in stored /\ b \notin stored)
  /\ ncalls' = ncalls + 1
  /\ IF (b \in stored \/ b \in Orphans(prevOrph)) /\ Height(best) >= Height(b)
       THEN /\ last' = [op |-> "deliver", b |-> b, orphan |-> (b \in Orphans(prevOrph)), err |-> FALSE]
            /\ UNCHANGED <<nvars>>
       ELSE IF Parent(b) \notin stored
       THEN /\ prevOrph' = IF b \in Orphans(prevOrph) THEN prevOrph ELSE [prevOrph EXCEPT ![Parent(b)] = Append(@, b)]
            /\ last' = [op |-> "deliver", b |-> b, orphan |-> TRUE, err |-> FALSE]
            /\ UNCHANGED <<stored, best, mainIdx, root, status, links, hdr, vcache, ticks, posted, everF, devs>>
       ELSE IF b \in stored
       THEN \* a stored block above the best height is processed again: nothing new to apply,
            \* but the first block of an epoch queues its epoch hash for the cached-verification loop again
            LET n0 == IF Height(b) % E = 1 THEN [NodeRec EXCEPT !.ticks = Append(@, Parent(b))] ELSE NodeRec IN
            /\ last' = [op |-> "deliver", b |-> b, orphan |-> FALSE, err |-> FALSE]
            /\ SetNode(n0) /\ Reorg(n0) /\ UNCHANGED vcache
       ELSE LET r == SaveBlock(NodeRec, b) IN
            IF ~r.ok
              THEN /\ SetNode(r.n) /\ UNCHANGED <<best, mainIdx, vcache>>
                   /\ last' = [op |-> "deliver", b |-> b, orphan |-> FALSE, err |-> TRUE]
              ELSE LET n2 == SaveSub(r.n, b) IN
                   /\ SetNode(n2) /\ Reorg(n2) /\ UNCHANGED vcache
                   /\ last' = [op |-> "deliver", b |-> b, orphan |-> FALSE, err |-> FALSE]
  /\ proot' = (IF best' # best THEN root' ELSE proot)
  /\ UNCHANGED nrestarts
  /\ UNCHANGED <<blk, byh, votes, phase, vseen>>

(* Casper.authVerification of an admitted message, shared by DeliverVote and EpochTick *)
Auth(n, v, s, t, ok) ==
  LET n1 == AddVer(n, v, s, t) IN
  [n1 EXCEPT !.posted = Append(@, [v |-> v, s |-> s, t |-> t])]

(* Chain.ProcessBlockVerification(msg) *)
DeliverVote(i) ==
  /\ phase = "run" /\ NoTick /\ ncalls < MaxCalls /\ i \in 1..Len(votes)
  /\ InOrder => i \notin vseen
  /\ vseen' = IF InOrder THEN vseen \cup {i} ELSE vseen
  /\ ncalls' = ncalls + 1
  /\ LET m == votes[i] IN
     IF ~(m.t \in stored /\ InTree(root, m.t))
       THEN /\ vcache' = {x \in vcache : ~(x.t = m.t /\ x.v = m.v)} \cup {[t |-> m.t, v |-> m.v, s |-> m.s, ok |-> m.ok]}
            /\ last' = [op |-> "vote", i |-> i, err |-> FALSE, r |-> "cached"]
            /\ UNCHANGED <<stored, prevOrph, best, mainIdx, root, status, links, hdr, ticks, posted, everF, devs>>
       ELSE IF m.s \notin stored
       THEN /\ last' = [op |-> "vote", i |-> i, err |-> TRUE, r |-> "nosource"] /\ UNCHANGED nvars
       ELSE IF m.t = root   \* stale: the target is the finalized root; ignored, result class free
       THEN /\ last' = [op |-> "vote", i |-> i, err |-> FALSE, r |-> "stale"] /\ UNCHANGED nvars
       ELSE IF [t |-> m.t, s |-> m.s, v |-> m.v] \in links
       THEN /\ last' = [op |-> "vote", i |-> i, err |-> FALSE, r |-> "dup"] /\ UNCHANGED nvars
       ELSE IF ~VerOk(NodeRec, m.v, m.s, m.t, m.ok)
       THEN /\ last' = [op |-> "vote", i |-> i, err |-> TRUE, r |-> "rejected"] /\ UNCHANGED nvars
       ELSE LET n1 == Auth(NodeRec, m.v, m.s, m.t, m.ok) IN
            /\ SetNode(n1) /\ Reorg(n1) /\ UNCHANGED vcache
            /\ last' = [op |-> "vote", i |-> i, err |-> FALSE, r |-> "ok"]
  /\ proot' = (IF best' # best THEN root' ELSE proot)
  /\ UNCHANGED nrestarts
  /\ UNCHANGED <<blk, byh, votes, phase>>

(* authVerificationLoop: cached messages for the epoch hash at the head of the queue *)
RECURSIVE TickVals(_, _, _)
TickVals(n, t, vs) ==
  IF vs = {} THEN n
  ELSE LET v == CHOOSE x \in vs : \A y \in vs : x <= y
           ms == {x \in vcache : x.t = t /\ x.v = v} IN
       IF ms = {} THEN TickVals(n, t, vs \ {v})
       ELSE LET m == CHOOSE x \in ms : TRUE IN
            IF m.s \in n.stored /\ IsCp(m.s) /\ InTree(n.root, t) /\ t # n.root /\ VerOk(n, v, m.s, t, m.ok)
              THEN TickVals(Auth(n, v, m.s, t, m.ok), t, vs \ {v})
              ELSE TickVals(n, t, vs \ {v})

EpochTick ==
  /\ phase = "run" /\ ticks # <<>>
  /\ LET t == Head(ticks)
         n0 == [NodeRec EXCEPT !.ticks = Tail(ticks)]
         n1 == IF t \in stored THEN TickVals(n0, t, Vals) ELSE n0 IN
     /\ SetNode(n1) /\ Reorg(n1)
     /\ vcache' = IF t \in stored THEN {x \in vcache : x.t # t} ELSE vcache
     /\ last' = [op |-> "tick", t |-> t]
  /\ proot' = (IF best' # best THEN root' ELSE proot)
  /\ UNCHANGED nrestarts
  /\ UNCHANGED <<blk, byh, votes, phase, vseen, ncalls>>

(* A clean restart: the process stops between two calls and starts again on the stored records.  *)
(* Orphans, cached verifications and queued epochs die with the process; everything else - in    *)
(* particular which verifications are admitted into which checkpoint - must be as before.        *)
(* Explored only in states where two recorded deviations of the code cannot interfere: the       *)
(* finalized checkpoint has been persisted (C19 finding: it is written with the chain status)    *)
(* and every stored leaf is an epoch-boundary block (C19 finding: growing checkpoints are lost). *)
Restart ==
  /\ phase = "run" /\ NoTick /\ ncalls < MaxCalls /\ nrestarts < MaxRestarts
  /\ root = proot
  /\ \A b \in stored : (~\E c \in stored : c # 0 /\ Parent(c) = b /\ c # b) => IsCp(b)
  /\ nrestarts' = nrestarts + 1 /\ ncalls' = ncalls + 1
  /\ prevOrph' = [b \in 0..MaxBlocks |-> <<>>] /\ vcache' = {} /\ ticks' = <<>>
  /\ last' = [op |-> "restart"]
  /\ UNCHANGED <<blk, byh, votes, phase, stored, best, mainIdx, root, status, links, hdr, posted, everF, devs, proot, vseen>>

Next == \/ \E p \in {0} \cup Ids, pos \in 0..MaxBlocks : Mint(p, pos)
        \/ EndMint \/ EndVotes
        \/ \E v \in Vals, s \in {0} \cup Ids, t \in Ids, ok \in BOOLEAN : MakeVote(v, s, t, ok)
        \/ \E s \in {0} \cup Ids, t \in Ids : MakeQuorum(s, t)
        \/ \E b \in Ids, i \in 1..MaxVotes : Carry(b, i)
        \/ \E b \in Ids : Deliver(b)
        \/ \E i \in 1..MaxVotes : DeliverVote(i)
        \/ EpochTick
        \/ Restart

Spec == Init /\ [][Next]_vars

-----------------------------------------------------------------------------
(* C11 *)
Quiet == ticks = <<>>
BestIsForkChoice == Quiet => best = BestOf(stored, status, root)
IndexIsAncestry == \A h \in 0..Height(best) : mainIdx[h] = Anc(best, h)
(* entries above the best height are left over from a longer, abandoned branch: they must not make a block look main *)
InMain(b) == Height(b) <= Height(best) /\ mainIdx[Height(b)] = b
InMainIffAncestor == Quiet => \A b \in stored : InMain(b) <=> IsAncestor(b, best)
(* C12 *)
(* an orphan whose parent is stored can only be one that finality made unconnectable *)
NoStrandedOrphan == \A o \in Orphans(prevOrph) : Parent(o) \in stored => ~InTree(root, Cp(Parent(o)))
(* C16 *)
NoConflictingFinal == (devs = {}) => \A a, b \in everF : IsAncestor(a, b) \/ IsAncestor(b, a)
FinalMonotone == [][IsAncestor(root, root')]_vars
FinalInMain == Quiet => IsAncestor(root, best)
(* C17 *)
JustifiedHasSupermajority ==
  \A t \in stored : (IsCp(t) /\ t # 0 /\ status[t] \in {"J", "F"}) =>
     \E s \in stored : Majority(Cardinality({x.v : x \in {y \in links : y.t = t /\ y.s = s}}))
FinalizedHasJustifiedChild ==
  \A c \in stored : (status[c] = "F") => \E t \in stored : IsCp(t) /\ CpParent(t) = c /\ status[t] \in {"J", "F"}
(* C18 *)
NoSlashablePair(S) == \A a, b \in S : (a.v = b.v /\ a # b) =>
     /\ ~(Height(a.t) = Height(b.t) /\ a.t # b.t)
     /\ ~(Height(a.s) < Height(b.s) /\ Height(b.t) < Height(a.t))
NoSlashableAdmitted == NoSlashablePair(links)
NoSlashableSent == NoSlashablePair({[v |-> posted[i].v, s |-> posted[i].s, t |-> posted[i].t] : i \in {j \in 1..Len(posted) : posted[j].v = Me}})

View == <<blk, byh, votes, phase, nvars, rvars, vseen, ncalls>>
=============================================================================
