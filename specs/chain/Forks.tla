------------------------------- MODULE Forks -------------------------------
(* Block tree, orphan handling and fork choice of protocol.Chain when no        *)
(* verification message ever arrives (nothing but genesis is justified):        *)
(* Chain.ProcessBlock = exist-check -> orphan | save + connect waiting orphans  *)
(* -> fork choice -> reorganisation (protocol/block.go, orphan_manage.go).      *)
(* The environment first mints a tree of valid coinbase-only blocks (choosing   *)
(* where each new hash falls among the hashes of the same height), then         *)
(* delivers them in any order, any number of times.                             *)
EXTENDS Integers, Sequences, FiniteSets, TLC

CONSTANTS MaxBlocks,    \* blocks the environment mints
          MaxDeliver,   \* ProcessBlock calls per behaviour
          MaxHeight     \* height bound of the minted tree

VARIABLES blk,      \* Seq([p |-> parent id, h |-> height]); block ids are 1..Len(blk), 0 is genesis
          byh,      \* [1..MaxHeight -> Seq(id)]: ids of each height in ascending order of their hashes
          minting,  \* TRUE while the environment still mints
          stored,   \* ids whose block is saved (headers in the store); genesis always
          orphans,  \* ids parked in the orphan pool
          best,     \* id of the best block
          mainIdx,  \* [0..MaxHeight -> id or -1]: main-chain index by height
          ndeliv,
          last      \* result of the last call

vars == <<blk, byh, minting, stored, orphans, best, mainIdx, ndeliv, last>>

Ids == 1..Len(blk)
Parent(b) == IF b = 0 THEN 0 ELSE blk[b].p
Height(b) == IF b = 0 THEN 0 ELSE blk[b].h

RECURSIVE Anc(_, _)
Anc(b, h) == IF Height(b) <= h THEN b ELSE Anc(Parent(b), h)   \* ancestor of b at height h (h <= Height(b))
IsAncestor(a, b) == Height(a) <= Height(b) /\ Anc(b, Height(a)) = a

PosIn(q, x) == CHOOSE i \in 1..Len(q) : q[i] = x
HashLess(a, b) == \* only blocks of equal height are ever compared
  PosIn(byh[Height(a)], a) < PosIn(byh[Height(b)], b)

(* Fork choice with genesis the only justified checkpoint: greatest height, then largest hash *)
Better(a, b) == Height(a) > Height(b) \/ (Height(a) = Height(b) /\ HashLess(b, a))
BestOf(S) == CHOOSE a \in S : \A b \in S \ {a} : Better(a, b)

InsertAt(q, i, x) == SubSeq(q, 1, i) \o <<x>> \o SubSeq(q, i + 1, Len(q))

Init == /\ blk = <<>> /\ byh = [h \in 1..MaxHeight |-> <<>>] /\ minting = TRUE
        /\ stored = {0} /\ orphans = {} /\ best = 0
        /\ mainIdx = [h \in 0..MaxHeight |-> IF h = 0 THEN 0 ELSE -1]
        /\ ndeliv = 0 /\ last = [op |-> "init"]

(* environment: a new valid block on any known block; pos = number of same-height hashes below the new one *)
Mint(p, pos) ==
  /\ minting /\ Len(blk) < MaxBlocks /\ Height(p) < MaxHeight
  /\ (Len(blk) > 0) => p >= blk[Len(blk)].p     \* canonical labelling: parents in non-decreasing order
  /\ LET h == Height(p) + 1  id == Len(blk) + 1 IN
     /\ pos \in 0..Len(byh[h])
     /\ blk' = Append(blk, [p |-> p, h |-> h])
     /\ byh' = [byh EXCEPT ![h] = InsertAt(@, pos, id)]
     /\ last' = [op |-> "mint", id |-> id, p |-> p, pos |-> pos]
  /\ UNCHANGED <<minting, stored, orphans, best, mainIdx, ndeliv>>

EndMint == /\ minting /\ Len(blk) >= 1 /\ minting' = FALSE /\ last' = [op |-> "endmint"]
           /\ UNCHANGED <<blk, byh, stored, orphans, best, mainIdx, ndeliv>>

(* orphans that become connectable once the blocks of D are stored *)
RECURSIVE Connect(_, _)
Connect(D, O) == LET N == {o \in O : Parent(o) \in D} IN
                 IF N = {} THEN D ELSE Connect(D \cup N, O \ N)

MainIdxFor(b, old) == [h \in 0..MaxHeight |-> IF h <= Height(b) THEN Anc(b, h) ELSE old[h]]

(* Chain.ProcessBlock(b) *)
Deliver(b) ==
  /\ ~minting /\ ndeliv < MaxDeliver /\ b \in Ids
  /\ ndeliv' = ndeliv + 1
  /\ IF (b \in stored \/ b \in orphans) /\ Height(best) >= Height(b)
       THEN /\ last' = [op |-> "deliver", b |-> b, orphan |-> (b \in orphans), err |-> FALSE]
            /\ UNCHANGED <<stored, orphans, best, mainIdx>>
       ELSE IF Parent(b) \notin stored
       THEN /\ orphans' = orphans \cup {b}
            /\ last' = [op |-> "deliver", b |-> b, orphan |-> TRUE, err |-> FALSE]
            /\ UNCHANGED <<stored, best, mainIdx>>
       ELSE LET D == Connect({b}, orphans)
                nb == BestOf(stored \cup D) IN
            /\ stored' = stored \cup D
            /\ orphans' = orphans \ D
            /\ best' = nb
            /\ mainIdx' = MainIdxFor(nb, mainIdx)
            /\ last' = [op |-> "deliver", b |-> b, orphan |-> FALSE, err |-> FALSE]
  /\ UNCHANGED <<blk, byh, minting>>

Next == \/ \E p \in {0} \cup Ids, pos \in 0..MaxBlocks : Mint(p, pos)
        \/ EndMint
        \/ \E b \in Ids : Deliver(b)

Spec == Init /\ [][Next]_vars

-----------------------------------------------------------------------------
(* C12 *)
NoStrandedOrphan == \A o \in orphans : Parent(o) \notin stored
StoredClosed == \A b \in stored : Parent(b) \in stored
OrphanDisjoint == orphans \cap stored = {}
(* everything delivered whose ancestors were all delivered is stored *)
(* C11 *)
BestIsForkChoice == best = BestOf(stored)
IndexIsAncestry == \A h \in 0..Height(best) : mainIdx[h] = Anc(best, h)
InMain(b) == mainIdx[Height(b)] = b
InMainIffAncestor == \A b \in stored : InMain(b) <=> IsAncestor(b, best)

View == <<blk, byh, minting, stored, orphans, best, mainIdx, ndeliv>>
=============================================================================
