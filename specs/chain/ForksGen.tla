------------------------------ MODULE ForksGen ------------------------------
(* Export of every explored transition of Forks with the call path that reaches *)
(* it and the expected observable state after every call.                       *)
EXTENDS Forks, Json
VARIABLE hist
Obs == [stored |-> stored, orphans |-> orphans, best |-> best,
        idx |-> [h \in 0..MaxHeight |-> mainIdx[h]],
        inmain |-> {b \in stored : InMain(b)}]
GInit == Init /\ hist = <<>>
GNext == /\ Next
         /\ hist' = IF last'.op = "endmint" THEN hist ELSE Append(hist, [call |-> last', obs |-> Obs'])
Export == (last'.op = "deliver") => PrintT("EXPORT " \o ToJson(hist'))
GView == View
=============================================================================
