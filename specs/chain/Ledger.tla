------------------------------- MODULE Ledger -------------------------------
(* The node's ledger under forks and reorganisations (protocol/block.go,         *)
(* protocol/state/utxo_view.go, contract_view.go, database/utxo_view.go,          *)
(* contract_view.go) and the rules that keep invalid blocks out of the main       *)
(* chain (protocol/validation/block.go + the spend checks on the attach path).    *)
(*                                                                                *)
(* Every scenario starts after a fixed funding prefix of H0 = 14 blocks (E = 2,   *)
(* one external validator) whose epoch rewards at heights 3, 5, 7 are the coins   *)
(* P3, P5, P7 (coinbase outputs, mature 10 blocks later). The environment mints   *)
(* a tree of blocks on the prefix tip, placing transactions of a fixed menu       *)
(* (spend, conflicting spend, vote, veto, contract registrations, immature        *)
(* coinbase spend) and optionally one rule-breaking header/coinbase mutation,     *)
(* then delivers blocks in any order and submits menu transactions to the pool.   *)
(*                                                                                *)
(* Fork choice mirrors the code (raw best = height, then hash; a best candidate   *)
(* whose branch does not apply leaves the state unchanged and returns an error);  *)
(* the ledger is the property: LedgerOf(best) computed from scratch.              *)
EXTENDS Integers, Sequences, FiniteSets, TLC

CONSTANTS MaxBlocks, MaxHeight, MaxCalls, MaxPlace, MaxSubmit, VoteLock, LockStep, VoteLock2, Bads,
          MenuOn    \* the menu transactions the environment uses in this configuration

H0 == 14
CbMaturity == 10

Coins == {"P3", "P5", "P7", "N1", "N2", "V3", "N4", "N5", "N6", "N7"}
PrefixHeight == [c \in {"P3", "P5", "P7"} |-> IF c = "P3" THEN 3 ELSE IF c = "P5" THEN 5 ELSE 7]
KindOf(c) == IF c \in {"P3", "P5", "P7"} THEN "coinbase" ELSE IF c = "V3" THEN "vote" ELSE "normal"

(* the transaction menu: one input, one output; ctr = contract registered by the output's program *)
TX == << [in |-> "P3", kind |-> "spend", out |-> "N1", ctr |-> ""],
         [in |-> "P3", kind |-> "spend", out |-> "N2", ctr |-> ""],     \* conflicts with 1
         [in |-> "N1", kind |-> "vote",  out |-> "V3", ctr |-> ""],
         [in |-> "V3", kind |-> "veto",  out |-> "N4", ctr |-> ""],     \* locked for VoteLock blocks
         [in |-> "P5", kind |-> "reg",   out |-> "N5", ctr |-> "A"],
         [in |-> "P7", kind |-> "spend", out |-> "N6", ctr |-> ""],     \* P7 is immature until height 17
         [in |-> "N2", kind |-> "reg",   out |-> "N7", ctr |-> "A"] >>  \* registers contract A a second time
TxIds == 1..Len(TX)

VARIABLES blk,      \* Seq([p, h, txs, bad]): p = parent id (0 = prefix tip), h = height above the prefix
          byh,      \* per height: ids in ascending hash order
          phase, nplace,
          stored, orphans, best, mainIdx,
          pool,     \* ghost: transactions submitted so far (the real pool is checked against the invariants only)
          ncalls, last

vars == <<blk, byh, phase, nplace, stored, orphans, best, mainIdx, pool, ncalls, last>>

Ids == 1..Len(blk)
Parent(b) == IF b = 0 THEN 0 ELSE blk[b].p
Height(b) == IF b = 0 THEN 0 ELSE blk[b].h
Abs(b) == H0 + Height(b)
TxsOf(b) == IF b = 0 THEN <<>> ELSE blk[b].txs
RECURSIVE Anc(_, _)
Anc(b, h) == IF Height(b) <= h THEN b ELSE Anc(Parent(b), h)
IsAncestor(a, b) == Height(a) <= Height(b) /\ Anc(b, Height(a)) = a
PosIn(q, x) == CHOOSE i \in 1..Len(q) : q[i] = x
HashLess(a, b) == PosIn(byh[Height(a)], a) < PosIn(byh[Height(b)], b)
InsertAt(q, i, x) == SubSeq(q, 1, i) \o <<x>> \o SubSeq(q, i + 1, Len(q))

-----------------------------------------------------------------------------
(* The ledger as a function of a chain: applying the blocks from the prefix tip *)
Led0 == [c \in Coins |-> IF c \in DOMAIN PrefixHeight THEN [st |-> "unspent", h |-> PrefixHeight[c]]
                                                      ELSE [st |-> "none", h |-> 0]]
(* the vote lock is a table over heights (consensus: VotePendingBlockNums), read at the height of the SPENDING block: *)
(* VoteLock blocks below absolute height LockStep, VoteLock2 from there on                                           *)
LockAt(H) == IF H < LockStep THEN VoteLock ELSE VoteLock2
Spendable(L, c, H) ==
  /\ L[c].st = "unspent"
  /\ KindOf(c) = "coinbase" => L[c].h + CbMaturity <= H
  /\ KindOf(c) = "vote" => L[c].h + LockAt(H) <= H

RECURSIVE ApplyTxs(_, _, _)
ApplyTxs(R, txs, H) ==      \* R = [ok, L, C]; C = contract table: name -> registering tx (0 = none)
  IF txs = <<>> \/ ~R.ok THEN R
  ELSE LET t == TX[Head(txs)] IN
       IF ~Spendable(R.L, t.in, H) THEN [R EXCEPT !.ok = FALSE]
       ELSE ApplyTxs([ok |-> TRUE,
                      \* the output of a registration is locked by an unspendable program: it is a retirement, no coin
                      L |-> IF t.kind = "reg" THEN [R.L EXCEPT ![t.in].st = "spent"]
                            ELSE [R.L EXCEPT ![t.in].st = "spent", ![t.out] = [st |-> "unspent", h |-> H]],
                      C |-> IF t.ctr # "" /\ R.C[t.ctr] = 0 THEN [R.C EXCEPT ![t.ctr] = Head(txs)] ELSE R.C],
                     Tail(txs), H)

RECURSIVE StateAt(_)
StateAt(b) == IF b = 0 THEN [ok |-> TRUE, L |-> Led0, C |-> [x \in {"A"} |-> 0]]
              ELSE ApplyTxs(StateAt(Parent(b)), TxsOf(b), Abs(b))
ValidInCtx(b) == StateAt(b).ok
LedgerOf(b) == StateAt(b).L
ContractsOf(b) == StateAt(b).C

(* what the store holds for a coin: spent entries are dropped unless they are coinbase outputs *)
Persisted(L) == [c \in Coins |->
   IF L[c].st = "none" \/ (L[c].st = "spent" /\ KindOf(c) # "coinbase") THEN [st |-> "none", h |-> 0]
   ELSE L[c]]

RECURSIVE MainTxs(_)
MainTxs(b) == IF b = 0 THEN {} ELSE {TxsOf(b)[i] : i \in 1..Len(TxsOf(b))} \cup MainTxs(Parent(b))

-----------------------------------------------------------------------------
Better(a, b) == Height(a) > Height(b) \/ (Height(a) = Height(b) /\ HashLess(b, a))
RawBest(S) == CHOOSE a \in S : \A b \in S \ {a} : Better(a, b)
(* the property-level fork choice: the best block of the *valid* tree *)
ValidBest(S) == RawBest({b \in S : ValidInCtx(b)})
MainIdxFor(b, old) == [h \in 0..MaxHeight |-> IF h <= Height(b) THEN Anc(b, h) ELSE old[h]]

Init == /\ blk = <<>> /\ byh = [h \in 1..MaxHeight |-> <<>>] /\ phase = "mint" /\ nplace = 0
        /\ stored = {0} /\ orphans = {} /\ best = 0
        /\ mainIdx = [h \in 0..MaxHeight |-> IF h = 0 THEN 0 ELSE -1]
        /\ pool = {} /\ ncalls = 0 /\ last = [op |-> "init"]

Mint(p, pos, bad) ==
  /\ phase = "mint" /\ Len(blk) < MaxBlocks /\ Height(p) < MaxHeight
  /\ (Len(blk) > 0) => p >= blk[Len(blk)].p
  /\ (bad # "none") => \A i \in Ids : blk[i].bad = "none"       \* at most one rule-breaking block per scenario
  /\ (p # 0) => blk[p].bad = "none"                               \* nobody builds on a block that cannot be stored
  /\ LET h == Height(p) + 1  id == Len(blk) + 1 IN
     /\ pos \in 0..Len(byh[h])
     /\ blk' = Append(blk, [p |-> p, h |-> h, txs |-> <<>>, bad |-> bad])
     /\ byh' = [byh EXCEPT ![h] = InsertAt(@, pos, id)]
     /\ last' = [op |-> "mint", id |-> id, p |-> p, pos |-> pos, bad |-> bad]
  /\ UNCHANGED <<phase, nplace, stored, orphans, best, mainIdx, pool, ncalls>>

(* the proposer of block b includes menu transaction t (blocks are built before anything is delivered) *)
Place(b, t) ==
  /\ phase = "place" /\ nplace < MaxPlace /\ b \in Ids /\ t \in TxIds \cap MenuOn /\ Len(blk[b].txs) < 2
  /\ \A i \in 1..Len(blk[b].txs) : blk[b].txs[i] # t
  /\ \A c \in Ids : (c > b) => blk[c].txs = <<>>                 \* canonical: fill blocks in id order
  /\ \/ TX[t].in \in DOMAIN PrefixHeight                          \* the proposer has seen the coin being created
     \/ \E a \in Ids : IsAncestor(a, b) /\ \E i \in 1..Len(blk[a].txs) : TX[blk[a].txs[i]].out = TX[t].in
  /\ blk' = [blk EXCEPT ![b].txs = Append(@, t)]
  /\ nplace' = nplace + 1
  /\ last' = [op |-> "place", b |-> b, tx |-> t]
  /\ UNCHANGED <<byh, phase, stored, orphans, best, mainIdx, pool, ncalls>>

EndMint == /\ phase = "mint" /\ Len(blk) >= 1 /\ phase' = "place" /\ last' = [op |-> "endmint"]
           /\ UNCHANGED <<blk, byh, nplace, stored, orphans, best, mainIdx, pool, ncalls>>
EndPlace == /\ phase = "place" /\ phase' = "run" /\ last' = [op |-> "endmint"]
            /\ UNCHANGED <<blk, byh, nplace, stored, orphans, best, mainIdx, pool, ncalls>>

RECURSIVE Connect(_, _)
Connect(D, O) == LET Nw == {o \in O : Parent(o) \in D /\ blk[o].bad = "none"} IN
                 IF Nw = {} THEN D ELSE Connect(D \cup Nw, O \ Nw)

(* Chain.ProcessBlock(b) *)
Deliver(b) ==
  /\ phase = "run" /\ ncalls < MaxCalls /\ b \in Ids
  /\ ncalls' = ncalls + 1
  /\ IF (b \in stored \/ b \in orphans) /\ Height(best) >= Height(b)
       THEN /\ last' = [op |-> "deliver", b |-> b, orphan |-> (b \in orphans), err |-> FALSE]
            /\ UNCHANGED <<stored, orphans, best, mainIdx>>
       ELSE IF Parent(b) \notin stored
       THEN /\ orphans' = orphans \cup {b}
            /\ last' = [op |-> "deliver", b |-> b, orphan |-> TRUE, err |-> FALSE]
            /\ UNCHANGED <<stored, best, mainIdx>>
       ELSE IF blk[b].bad # "none"
       THEN /\ last' = [op |-> "deliver", b |-> b, orphan |-> FALSE, err |-> TRUE]
            /\ UNCHANGED <<stored, orphans, best, mainIdx>>
       ELSE LET D == Connect({b}, orphans)
                S == stored \cup D
                rb == RawBest(S) IN
            /\ stored' = S
            /\ orphans' = orphans \ D
            /\ IF rb = best \/ ValidInCtx(rb)
                 THEN /\ best' = rb /\ mainIdx' = IF rb = best THEN mainIdx ELSE MainIdxFor(rb, mainIdx)
                      /\ last' = [op |-> "deliver", b |-> b, orphan |-> FALSE, err |-> FALSE]
                 ELSE /\ UNCHANGED <<best, mainIdx>>       \* the candidate branch does not apply: nothing changes
                      /\ last' = [op |-> "deliver", b |-> b, orphan |-> FALSE, err |-> TRUE]
  /\ UNCHANGED <<blk, byh, phase, nplace, pool>>

(* Chain.ValidateTx(tx): submission to the mempool; the outcome is left to the pool *)
Submit(t) ==
  /\ phase = "run" /\ ncalls < MaxCalls /\ Cardinality(pool) < MaxSubmit /\ t \in TxIds \cap MenuOn /\ t \notin pool
  /\ ncalls' = ncalls + 1
  /\ pool' = pool \cup {t}
  /\ last' = [op |-> "submit", tx |-> t]
  /\ UNCHANGED <<blk, byh, phase, nplace, stored, orphans, best, mainIdx>>

Next == \/ \E p \in {0} \cup Ids, pos \in 0..MaxBlocks, bad \in Bads \cup {"none"} : Mint(p, pos, bad)
        \/ EndMint \/ EndPlace
        \/ \E b \in Ids, t \in TxIds : Place(b, t)
        \/ \E b \in Ids : Deliver(b)
        \/ \E t \in TxIds : Submit(t)

Spec == Init /\ [][Next]_vars

-----------------------------------------------------------------------------
(* C13 *)
MainChainValid == ValidInCtx(best) /\ \A h \in 0..Height(best) : Anc(best, h) = 0 \/ blk[Anc(best, h)].bad = "none"
BadNeverStored == \A b \in stored : b = 0 \/ blk[b].bad = "none"
(* C11 in the ledger family: index consistent with best *)
IndexIsAncestry == \A h \in 0..Height(best) : mainIdx[h] = Anc(best, h)
(* C10 is the definition of the expected ledger (LedgerOf(best)); nothing to check on the spec itself *)

View == <<blk, byh, phase, nplace, stored, orphans, best, mainIdx, pool, ncalls>>
=============================================================================
