----------------------------- MODULE LedgerGen -----------------------------
(* Export of every explored transition of Ledger: the call path and the expected *)
(* observable state after its last call (every prefix of a path is a path).      *)
EXTENDS Ledger, Json
VARIABLE hist
InMain(b) == mainIdx[Height(b)] = b
Obs == [stored |-> stored, orphans |-> orphans, best |-> best,
        idx |-> [h \in 0..MaxHeight |-> mainIdx[h]],
        inmain |-> {b \in stored : InMain(b)},
        utxo |-> Persisted(LedgerOf(best)),
        contracts |-> ContractsOf(best),
        maintxs |-> MainTxs(best),
        validbest |-> ValidBest(stored),
        invalid |-> {b \in stored : ~ValidInCtx(b)},
        submitted |-> pool]
IsCall(op) == op \in {"deliver", "submit"}
GInit == Init /\ hist = <<>>
GNext == /\ Next
         /\ hist' = IF last'.op = "endmint" THEN hist ELSE Append(hist, last')
Export == IsCall(last.op) => PrintT("EXPORT " \o ToJson([calls |-> hist, obs |-> Obs]))
GView == View
=============================================================================
