------------------------------ MODULE NodeLocks ------------------------------
(* Synchronisation skeleton of a running node (property C37), as the code     *)
(* structures it:                                                             *)
(*                                                                            *)
(*   bp        protocol/block.go blockProcessor: select over processBlockCh   *)
(*             and casper.RollbackCh(); processBlock = saveBlock (ApplyBlock: *)
(*             newEpochCh send BEFORE Casper.mu is write-locked) [+ orphans   *)
(*             saved by saveSubBlock], BestChain (read lock), tryReorganize   *)
(*             -> reorganizeChain -> setState (LastFinalized: read lock, then *)
(*             chain.cond.L), txpool fix-ups (txpool.mtx)                     *)
(*   Verifiers Chain.ProcessBlockVerification -> Casper.AuthVerification:     *)
(*             write-lock Casper.mu, work, unlock, THEN (if the best chain    *)
(*             changed) send a rollback request and wait for the reply        *)
(*   cl        authVerificationLoop: receives from newEpochCh, replays cached *)
(*             verifications under Casper.mu (authCachedMsg)                  *)
(*   Feeders   Chain.ProcessBlock: send on processBlockCh, wait for the reply *)
(*   Submitters Chain.ValidateTx: txpool.mtx (read), chain.cond.L             *)
(*             (BestBlockHeader), txpool.mtx (write)                          *)
(*   Readers   BestBlockHeight/BestBlockHash (cond.L), LastFinalizedHeader    *)
(*             (Casper.mu read lock), InMainChain/GetHeaderByHeight (store)   *)
(*                                                                            *)
(* Resources: Casper.mu, chain.cond.L, txpool.mtx, the three bounded channels  *)
(* and the unbuffered reply channel of a rollback request. A critical section *)
(* that contains a blocking operation or that another thread waits behind     *)
(* while the holder itself waits (all write sections of Casper.mu, the        *)
(* sections of the block processor) is two steps, acquire and release. The    *)
(* leaf sections of callers (read sections of Casper.mu, BestBlockHeight,     *)
(* the txpool calls: no blocking operation inside, nothing else held) are one *)
(* step that needs the lock to be free: such a holder can always release, so  *)
(* it cannot be part of a cycle of waiting threads. Read sections being leaf  *)
(* sections, the reader side of the two RWMutexes needs no state, and Go's    *)
(* writer preference (a pending writer holds back new readers) cannot close a *)
(* cycle either: it only matters for a reader that blocks inside its section. *)
(*                                                                            *)
(* DevHoldLockDuringRollback = TRUE is the behaviour before the repair        *)
(* "request the chain rollback after releasing the casper lock": the verifier *)
(* waits for the reply while it still holds Casper.mu.                        *)
(* DevCachedReadUnlocked = TRUE is authCachedMsg as written: it walks the     *)
(* checkpoint tree before it takes Casper.mu.                                 *)
(* CachedRollback = TRUE is a candidate repair of the recorded C11 finding     *)
(* (a cached verification that changes the best chain requests no rollback):  *)
(* the loop would do what AuthVerification does, send a rollback request and  *)
(* wait for the reply. The loop then waits for the block processor while the  *)
(* block processor may wait for room on newEpochCh, which only the loop       *)
(* drains: TLC finds the wait cycle (NodeLocks.cachedwait.cfg) unless the     *)
(* queue can hold every epoch announced meanwhile (NodeLocks.cachedroom.cfg). *)
EXTENDS Naturals, Sequences, FiniteSets, TLC

CONSTANTS Feeders, Verifiers, Submitters, Readers,   \* caller threads
          MaxBlocks, MaxVotes, MaxTxs, MaxReads,      \* bounds on the number of calls
          MaxChanges,   \* verification messages that change the best chain
          MaxSub,       \* orphan blocks saved by saveSubBlock within one request
          MaxCached,    \* cached verifications replayed per epoch message
          BlockCap, RbCap, EpochCap,                  \* channel capacities
          DevHoldLockDuringRollback,
          DevCachedReadUnlocked,
          CachedRollback

VARIABLES pc,        \* [Threads -> control state]
          mu,        \* Casper.mu: the thread inside a write section, or "none"
          mtx,       \* txpool.mtx: holder or "none"
          cond,      \* chain.cond.L: holder or "none"
          blockQ,    \* processBlockCh: sequence of feeders
          rbQ,       \* rollbackCh: sequence of verifiers
          epochQ,    \* newEpochCh: number of queued epoch hashes
          reply,     \* [Feeders -> BOOLEAN] the reply channel (capacity 1) holds the response
          rbReply,   \* [Verifiers -> BOOLEAN] the reply of the rollback request was handed over
          cur,       \* request the block processor is working on (feeder / verifier / "none")
          arm,       \* "block" | "rb" | "none"
          sub,       \* orphans saved so far in this request
          chg,       \* [Verifiers -> BOOLEAN] this verification changed the best chain
          cached,    \* cached verifications replayed so far for this epoch message
          nblocks, nvotes, ntxs, nreads, nchanges

locks == <<mu, mtx, cond>>
chans == <<blockQ, rbQ, epochQ, reply, rbReply>>
bpv   == <<cur, arm, sub>>
cnt   == <<nblocks, nvotes, ntxs, nreads, nchanges>>
vars  == <<pc, locks, chans, bpv, chg, cached, cnt>>

BP == "bp"
CL == "cl"
Callers == Feeders \cup Verifiers \cup Submitters \cup Readers
Threads == {BP, CL} \cup Callers

Init == /\ pc = [t \in Threads |-> "idle"]
        /\ mu = "none" /\ mtx = "none" /\ cond = "none"
        /\ blockQ = <<>> /\ rbQ = <<>> /\ epochQ = 0
        /\ reply = [f \in Feeders |-> FALSE]
        /\ rbReply = [v \in Verifiers \cup {CL} |-> FALSE]
        /\ cur = "none" /\ arm = "none" /\ sub = 0
        /\ chg = [v \in Verifiers \cup {CL} |-> FALSE]
        /\ cached = 0
        /\ nblocks = 0 /\ nvotes = 0 /\ ntxs = 0 /\ nreads = 0 /\ nchanges = 0

Goto(t, p) == pc' = [pc EXCEPT ![t] = p]
At(t, p) == pc[t] = p

(* ---- Feeders: Chain.ProcessBlock -------------------------------------------- *)
FBegin(f) == /\ At(f, "idle") /\ nblocks < MaxBlocks /\ nblocks' = nblocks + 1
             /\ Goto(f, "f_send")
             /\ UNCHANGED <<locks, chans, bpv, chg, cached, nvotes, ntxs, nreads, nchanges>>
FSend(f)  == /\ At(f, "f_send") /\ Len(blockQ) < BlockCap            \* c.processBlockCh <- msg
             /\ blockQ' = Append(blockQ, f) /\ Goto(f, "f_wait")
             /\ UNCHANGED <<locks, rbQ, epochQ, reply, rbReply, bpv, chg, cached, cnt>>
FRecv(f)  == /\ At(f, "f_wait") /\ reply[f]                          \* <-reply
             /\ reply' = [reply EXCEPT ![f] = FALSE] /\ Goto(f, "ret")
             /\ UNCHANGED <<locks, blockQ, rbQ, epochQ, rbReply, bpv, chg, cached, cnt>>
(* every caller: the call returns *)
End(t)    == /\ At(t, "ret") /\ Goto(t, "idle")
             /\ UNCHANGED <<locks, chans, bpv, chg, cached, cnt>>

(* ---- Verifiers: Casper.AuthVerification -------------------------------------- *)
VBegin(v) == /\ At(v, "idle") /\ nvotes < MaxVotes /\ nvotes' = nvotes + 1
             /\ Goto(v, "v_lock")
             /\ UNCHANGED <<locks, chans, bpv, chg, cached, nblocks, ntxs, nreads, nchanges>>
VAcq(v)   == /\ At(v, "v_lock") /\ mu = "none" /\ mu' = v /\ Goto(v, "v_work")     \* c.mu.Lock()
             /\ UNCHANGED <<mtx, cond, chans, bpv, chg, cached, cnt>>
(* the verification is authenticated under the lock; it may change the best chain *)
VWork(v, changed) ==
  /\ At(v, "v_work")
  /\ changed => nchanges < MaxChanges
  /\ nchanges' = IF changed THEN nchanges + 1 ELSE nchanges
  /\ chg' = [chg EXCEPT ![v] = changed]
  /\ Goto(v, IF DevHoldLockDuringRollback /\ changed THEN "v_send" ELSE "v_unlock")
  /\ UNCHANGED <<locks, chans, bpv, cached, nblocks, nvotes, ntxs, nreads>>
VRel(v)   == /\ At(v, "v_unlock") /\ mu = v /\ mu' = "none"                        \* c.mu.Unlock()
             /\ Goto(v, IF chg[v] /\ ~DevHoldLockDuringRollback THEN "v_send" ELSE "ret")
             /\ chg' = [chg EXCEPT ![v] = FALSE]
             /\ UNCHANGED <<mtx, cond, chans, bpv, cached, cnt>>
VSend(v)  == /\ At(v, "v_send") /\ Len(rbQ) < RbCap                                \* c.rollbackCh <- msg
             /\ rbQ' = Append(rbQ, v) /\ Goto(v, "v_wait")
             /\ UNCHANGED <<locks, blockQ, epochQ, reply, rbReply, bpv, chg, cached, cnt>>
VRecv(v)  == /\ At(v, "v_wait") /\ rbReply[v]                                      \* <-msg.Reply
             /\ rbReply' = [rbReply EXCEPT ![v] = FALSE]
             /\ Goto(v, IF DevHoldLockDuringRollback THEN "v_unlock" ELSE "ret")
             /\ UNCHANGED <<locks, blockQ, rbQ, epochQ, reply, bpv, chg, cached, cnt>>

(* ---- block processor ------------------------------------------------------------ *)
BPTakeBlock ==
  /\ At(BP, "idle") /\ blockQ # <<>>
  /\ cur' = Head(blockQ) /\ blockQ' = Tail(blockQ) /\ arm' = "block" /\ sub' = 0
  /\ Goto(BP, "pb")
  /\ UNCHANGED <<locks, rbQ, epochQ, reply, rbReply, chg, cached, cnt>>
BPTakeRb ==
  /\ At(BP, "idle") /\ rbQ # <<>>
  /\ cur' = Head(rbQ) /\ rbQ' = Tail(rbQ) /\ arm' = "rb" /\ sub' = 0
  /\ Goto(BP, "reorg")
  /\ UNCHANGED <<locks, blockQ, epochQ, reply, rbReply, chg, cached, cnt>>
(* processBlock: known block / orphan / invalid block: answered without the finality engine *)
BPSkip ==
  /\ At(BP, "pb") /\ Goto(BP, "answer")
  /\ UNCHANGED <<locks, chans, bpv, chg, cached, cnt>>
(* saveBlock -> Casper.ApplyBlock; the first block of an epoch is announced on newEpochCh first *)
BPSave(epochStart) ==
  /\ At(BP, "pb") /\ Goto(BP, IF epochStart THEN "ap_epoch" ELSE "ap_lock")
  /\ UNCHANGED <<locks, chans, bpv, chg, cached, cnt>>
BPEpochSend ==
  /\ At(BP, "ap_epoch") /\ epochQ < EpochCap /\ epochQ' = epochQ + 1 /\ Goto(BP, "ap_lock")   \* c.newEpochCh <- hash
  /\ UNCHANGED <<locks, blockQ, rbQ, reply, rbReply, bpv, chg, cached, cnt>>
BPApplyAcq ==
  /\ At(BP, "ap_lock") /\ mu = "none" /\ mu' = BP /\ Goto(BP, "ap_work")
  /\ UNCHANGED <<mtx, cond, chans, bpv, chg, cached, cnt>>
BPApplyRel ==
  /\ At(BP, "ap_work") /\ mu = BP /\ mu' = "none" /\ Goto(BP, "saved")
  /\ UNCHANGED <<mtx, cond, chans, bpv, chg, cached, cnt>>
(* after a block was applied: saving it failed (answer), an orphan waits for it          *)
(* (saveSubBlock), or the fork choice is read (casper.BestChain: read section)           *)
BPFailed ==
  /\ At(BP, "saved") /\ sub = 0 /\ Goto(BP, "answer")
  /\ UNCHANGED <<locks, chans, bpv, chg, cached, cnt>>
BPSubBlock(epochStart) ==
  /\ At(BP, "saved") /\ sub < MaxSub /\ sub' = sub + 1
  /\ Goto(BP, IF epochStart THEN "ap_epoch" ELSE "ap_lock")
  /\ UNCHANGED <<locks, chans, cur, arm, chg, cached, cnt>>
BPBestChain ==
  /\ At(BP, "saved") /\ mu = "none" /\ Goto(BP, "reorg")
  /\ UNCHANGED <<locks, chans, bpv, chg, cached, cnt>>
(* tryReorganize: nothing to do, or reorganizeChain -> setState *)
BPNoReorg ==
  /\ At(BP, "reorg") /\ Goto(BP, "answer")
  /\ UNCHANGED <<locks, chans, bpv, chg, cached, cnt>>
BPLastFinalized ==       \* setState: casper.LastFinalized() (read section)
  /\ At(BP, "reorg") /\ mu = "none" /\ Goto(BP, "ss_cond")
  /\ UNCHANGED <<locks, chans, bpv, chg, cached, cnt>>
BPCondAcq ==             \* setState: c.cond.L.Lock(); bestBlockHeader = ...; Broadcast
  /\ At(BP, "ss_cond") /\ cond = "none" /\ cond' = BP /\ Goto(BP, "ss_held")
  /\ UNCHANGED <<mu, mtx, chans, bpv, chg, cached, cnt>>
BPCondRel ==
  /\ At(BP, "ss_held") /\ cond' = "none" /\ Goto(BP, "pool")
  /\ UNCHANGED <<mu, mtx, chans, bpv, chg, cached, cnt>>
(* reorganizeChain: transactions of attached blocks leave the pool, those of detached blocks return *)
BPPoolSkip ==
  /\ At(BP, "pool") /\ Goto(BP, "answer")
  /\ UNCHANGED <<locks, chans, bpv, chg, cached, cnt>>
BPPoolAcq ==
  /\ At(BP, "pool") /\ mtx = "none" /\ mtx' = BP /\ Goto(BP, "pool_held")
  /\ UNCHANGED <<mu, cond, chans, bpv, chg, cached, cnt>>
BPPoolRel ==
  /\ At(BP, "pool_held") /\ mtx' = "none" /\ Goto(BP, "answer")
  /\ UNCHANGED <<mu, cond, chans, bpv, chg, cached, cnt>>
(* msg.reply <- response (capacity 1: never blocks) *)
BPReplyBlock ==
  /\ At(BP, "answer") /\ arm = "block"
  /\ reply' = [reply EXCEPT ![cur] = TRUE] /\ cur' = "none" /\ arm' = "none" /\ Goto(BP, "idle")
  /\ UNCHANGED <<locks, blockQ, rbQ, epochQ, rbReply, sub, chg, cached, cnt>>
(* msg.Reply <- err on an unbuffered channel: completes only with the verifier receiving *)
BPReplyRb ==
  /\ At(BP, "answer") /\ arm = "rb" /\ pc[cur] \in {"v_wait", "c_wait"}
  /\ rbReply' = [rbReply EXCEPT ![cur] = TRUE] /\ cur' = "none" /\ arm' = "none" /\ Goto(BP, "idle")
  /\ UNCHANGED <<locks, blockQ, rbQ, epochQ, reply, sub, chg, cached, cnt>>

(* ---- cached-verification loop --------------------------------------------------- *)
CLTake ==
  /\ At(CL, "idle") /\ epochQ > 0 /\ epochQ' = epochQ - 1 /\ cached' = 0 /\ Goto(CL, "c_pick")
  /\ UNCHANGED <<locks, blockQ, rbQ, reply, rbReply, bpv, chg, cnt>>
CLNone ==
  /\ At(CL, "c_pick") /\ Goto(CL, "idle")
  /\ UNCHANGED <<locks, chans, bpv, chg, cached, cnt>>
CLCached ==
  /\ At(CL, "c_pick") /\ cached < MaxCached /\ cached' = cached + 1
  /\ Goto(CL, IF DevCachedReadUnlocked THEN "c_tree" ELSE "c_lock")
  /\ UNCHANGED <<locks, chans, bpv, chg, cnt>>
CLReadTree ==      \* c.tree.nodeByHash(...) without the lock
  /\ At(CL, "c_tree") /\ Goto(CL, "c_lock")
  /\ UNCHANGED <<locks, chans, bpv, chg, cached, cnt>>
CLAcq ==
  /\ At(CL, "c_lock") /\ mu = "none" /\ mu' = CL /\ Goto(CL, "c_work")
  /\ UNCHANGED <<mtx, cond, chans, bpv, chg, cached, cnt>>
CLRel(changed) ==
  /\ At(CL, "c_work") /\ mu = CL /\ mu' = "none"
  /\ changed => (CachedRollback /\ nchanges < MaxChanges)
  /\ nchanges' = IF changed THEN nchanges + 1 ELSE nchanges
  /\ Goto(CL, IF changed THEN "c_send" ELSE "c_pick")
  /\ UNCHANGED <<mtx, cond, chans, bpv, chg, cached, nblocks, nvotes, ntxs, nreads>>
CLSend ==          \* candidate repair: c.rollbackCh <- msg
  /\ At(CL, "c_send") /\ Len(rbQ) < RbCap /\ rbQ' = Append(rbQ, CL) /\ Goto(CL, "c_wait")
  /\ UNCHANGED <<locks, blockQ, epochQ, reply, rbReply, bpv, chg, cached, cnt>>
CLRecv ==          \* candidate repair: <-msg.Reply
  /\ At(CL, "c_wait") /\ rbReply[CL] /\ rbReply' = [rbReply EXCEPT ![CL] = FALSE] /\ Goto(CL, "c_pick")
  /\ UNCHANGED <<locks, blockQ, rbQ, epochQ, reply, bpv, chg, cached, cnt>>

(* ---- Submitters: Chain.ValidateTx (leaf sections, one step each) ------------------ *)
SBegin(s) == /\ At(s, "idle") /\ ntxs < MaxTxs /\ ntxs' = ntxs + 1 /\ Goto(s, "s_have")
             /\ UNCHANGED <<locks, chans, bpv, chg, cached, nblocks, nvotes, nreads, nchanges>>
(* txPool.HaveTransaction; a known transaction or dust goes straight to the error cache *)
SHave(s, known) ==
             /\ At(s, "s_have") /\ mtx = "none" /\ Goto(s, IF known THEN "s_pool" ELSE "s_best")
             /\ UNCHANGED <<locks, chans, bpv, chg, cached, cnt>>
SBest(s)  == /\ At(s, "s_best") /\ cond = "none" /\ Goto(s, "s_pool")          \* c.BestBlockHeader()
             /\ UNCHANGED <<locks, chans, bpv, chg, cached, cnt>>
SPool(s)  == /\ At(s, "s_pool") /\ mtx = "none" /\ Goto(s, "ret")              \* ProcessTransaction / AddErrCache / GetErrCache
             /\ UNCHANGED <<locks, chans, bpv, chg, cached, cnt>>

(* ---- Readers (leaf sections) ------------------------------------------------------- *)
ReadKinds == {"height", "final", "main"}
RBegin(r, kind) ==
  /\ At(r, "idle") /\ nreads < MaxReads /\ nreads' = nreads + 1
  /\ Goto(r, CASE kind = "height" -> "r_cond" [] kind = "final" -> "r_mu" [] OTHER -> "ret")
  /\ UNCHANGED <<locks, chans, bpv, chg, cached, nblocks, nvotes, ntxs, nchanges>>
RCond(r)  == /\ At(r, "r_cond") /\ cond = "none" /\ Goto(r, "ret")             \* BestBlockHeight / BestBlockHash
             /\ UNCHANGED <<locks, chans, bpv, chg, cached, cnt>>
RMu(r)    == /\ At(r, "r_mu") /\ mu = "none" /\ Goto(r, "ret")                 \* LastFinalizedHeader / LastJustifiedHeader
             /\ UNCHANGED <<locks, chans, bpv, chg, cached, cnt>>

(* ---- next-state relation, per thread ------------------------------------------------ *)
FStep(f) == FBegin(f) \/ FSend(f) \/ FRecv(f) \/ End(f)
VStep(v) == VBegin(v) \/ VAcq(v) \/ (\E c \in BOOLEAN : VWork(v, c)) \/ VRel(v) \/ VSend(v) \/ VRecv(v) \/ End(v)
SStep(s) == SBegin(s) \/ (\E k \in BOOLEAN : SHave(s, k)) \/ SBest(s) \/ SPool(s) \/ End(s)
RStep(r) == (\E k \in ReadKinds : RBegin(r, k)) \/ RCond(r) \/ RMu(r) \/ End(r)
BPStep == \/ BPTakeBlock \/ BPTakeRb \/ BPSkip \/ (\E e \in BOOLEAN : BPSave(e)) \/ BPEpochSend
          \/ BPApplyAcq \/ BPApplyRel \/ BPFailed \/ (\E e \in BOOLEAN : BPSubBlock(e))
          \/ BPBestChain \/ BPNoReorg \/ BPLastFinalized
          \/ BPCondAcq \/ BPCondRel \/ BPPoolSkip \/ BPPoolAcq \/ BPPoolRel \/ BPReplyBlock \/ BPReplyRb
CLStep == CLTake \/ CLNone \/ CLCached \/ CLReadTree \/ CLAcq \/ (\E c \in BOOLEAN : CLRel(c)) \/ CLSend \/ CLRecv

AllCallsReturned ==
  /\ \A t \in Callers : pc[t] = "idle"
  /\ nblocks = MaxBlocks /\ nvotes = MaxVotes /\ ntxs = MaxTxs /\ nreads = MaxReads
Quiescent == AllCallsReturned /\ pc[BP] = "idle" /\ pc[CL] = "idle" /\ blockQ = <<>> /\ rbQ = <<>> /\ epochQ = 0
(* the finished system idles (so that TLC's deadlock check flags only real deadlocks) *)
Finished == Quiescent /\ UNCHANGED vars

Next == \/ \E f \in Feeders : FStep(f)
        \/ \E v \in Verifiers : VStep(v)
        \/ \E s \in Submitters : SStep(s)
        \/ \E r \in Readers : RStep(r)
        \/ BPStep \/ CLStep \/ Finished

Spec == Init /\ [][Next]_vars
(* weak fairness per thread: a thread that can continuously take a step eventually takes one *)
Fairness == /\ \A f \in Feeders : WF_vars(FStep(f))
            /\ \A v \in Verifiers : WF_vars(VStep(v))
            /\ \A s \in Submitters : WF_vars(SStep(s))
            /\ \A r \in Readers : WF_vars(RStep(r))
            /\ WF_vars(BPStep) /\ WF_vars(CLStep)
FairSpec == Spec /\ Fairness

(* ---- properties (C37) ----------------------------------------------------------------- *)
Holders == Threads \cup {"none"}
TypeOK ==
  /\ mu \in Holders /\ mtx \in Holders /\ cond \in Holders
  /\ Len(blockQ) <= BlockCap /\ Len(rbQ) <= RbCap /\ epochQ <= EpochCap
(* who is inside a write section of Casper.mu *)
InMuWrite(t) == \/ pc[t] \in {"v_work", "v_unlock", "ap_work", "c_work"}
                \/ (pc[t] \in {"v_send", "v_wait"} /\ DevHoldLockDuringRollback)
HoldersAgree == /\ \A t \in Threads : (InMuWrite(t) <=> mu = t)
                /\ (pc[BP] = "ss_held" <=> cond = BP) /\ (pc[BP] = "pool_held" <=> mtx = BP)
(* "shared state is never accessed unsynchronised", design level: nobody walks the      *)
(* checkpoint tree outside Casper.mu while a writer is inside                           *)
NoUnsyncTreeAccess == ~(pc[CL] = "c_tree" /\ mu # "none")
(* the rollback is requested with the casper lock released *)
RollbackOutsideLock == \A v \in Verifiers : pc[v] \in {"v_send", "v_wait"} => mu # v
(* progress: every call returns, and the node comes to rest *)
Progress == <>AllCallsReturned
EventuallyQuiescent == <>[]Quiescent
=============================================================================
