------------------------------ MODULE Proposer ------------------------------
(* C38, second part: what a block template built from a mempool may contain.        *)
(* (proposal/proposal.go NewBlockTemplate; protocol/validation/block.go gas limit;  *)
(* protocol/block.go connecting the block to the ledger of its parent.)             *)
(*                                                                                  *)
(* A pool is the sequence, in arrival order, of the transactions the mempool holds. *)
(* Every transaction spends exactly ONE coin and creates ONE coin (its output 0):   *)
(*   id   position in arrival order (1..Len(pool))                                  *)
(*   w    gas weight class: "heavy" (1 unit) or "small" (0 units)                   *)
(*   in   the coin it spends:  in < 0  coin -in of the best block's ledger          *)
(*                             in > 0  output of pool transaction `in` (its parent) *)
(* Two transactions with the same `in` are a double spend of that coin (conflict).  *)
(*                                                                                  *)
(* Scaling (homomorphic, see notes/C38.md): consensus.MaxBlockGas = 10,000,000 and  *)
(* a transaction's gas is capped at MaxGasAmount = 300,000, so at least 34 maximal  *)
(* transactions are needed to fill a block. Budget = 34 units; a heavy transaction  *)
(* is concretised with 285,715 <= gas <= 293,976 (1 unit), all small ones of a pool *)
(* together with < 4,800 gas (0 units), the coinbase uses no gas. Then              *)
(*   units(T) <= 34  <=>  gas(T) <= 10,000,000   for every set T of pool txs.       *)
(* The driver checks the concretisation bounds on every transaction it builds and   *)
(* ProposerJudge re-checks the equivalence on the measured numbers.                 *)
(*                                                                                  *)
(* The specification does NOT transliterate the Go loop. The builder is any         *)
(* process that walks the pool and, for each transaction, either leaves it out or   *)
(* applies it to the ledger it is building on (possible only if the coin is there   *)
(* and the gas fits). What the node must never do is stated as invariants of that   *)
(* process and as the order-agnostic predicate Classes(pool, T) = {} used to judge  *)
(* the template the real node produced (ProposerJudge.tla).                         *)
EXTENDS ProposerRules

CONSTANTS BatchN,    \* the builder validates the pool in batches of BatchN (shapes are placed relative to them)
          PoolLen,   \* transactions per pool
          NHs,       \* pool shapes: number of leading heavy transactions
          APos, BPos,\*              positions of the related transactions A < B (C = B + 1)
          Kinds,     \*              "plain", "pair", "conflict", "chain3", "fork"
          Flips      \*              "none", "a", "b": weight class of A / B inverted

Other(w) == IF w = "heavy" THEN "small" ELSE "heavy"
Batch(i) == ((i - 1) \div BatchN) + 1

(* ------------------------------------------------------------------ pool shapes *)
MkPool(nh, kind, a, b, flip) ==
  [i \in 1..PoolLen |->
     [id |-> i,
      w  |-> LET base == IF i <= nh THEN "heavy" ELSE "small"
             IN IF kind # "plain" /\ ((flip = "a" /\ i = a) \/ (flip = "b" /\ i = b)) THEN Other(base) ELSE base,
      in |-> CASE kind = "pair"     /\ i = b          -> a       \* B spends A's output
               [] kind = "conflict" /\ i = b          -> 0 - a   \* B spends the coin A spends
               [] kind = "chain3"   /\ i = b          -> a       \* A <- B <- C
               [] kind = "chain3"   /\ i = b + 1      -> b
               [] kind = "fork"     /\ i \in {b, b+1} -> a       \* B and C both spend A's output
               [] OTHER -> 0 - i]]

Cases == { MkPool(nh, kind, a, b, flip) :
             nh \in NHs, kind \in Kinds, flip \in Flips,
             a \in APos, b \in {x \in BPos : x + 1 <= PoolLen} }
         \* (a >= b gives well-formed pools too: parents are then simply looked for earlier; they are filtered below)
GoodCases == { p \in Cases : WellFormed(p) }

(* ------------------------------------------------------------------ the builder *)
VARIABLES pool, tb,       \* the case: pool and its tables (constant along a behaviour)
          pos,            \* next pool transaction to decide on
          sel,            \* the template so far
          led, used,      \* the ledger under construction and the gas units used
          selrel          \* the related transactions among sel (for the view)
vars == <<pool, tb, pos, sel, led, used, selrel>>

Init == /\ pool \in GoodCases
        /\ tb = Tabs(pool)
        /\ pos = 1 /\ sel = <<>> /\ led = Ledger0(pool) /\ used = 0 /\ selrel = {}

Take == /\ pos <= Len(pool)
        /\ pool[pos].in \in led                        \* the coin is in the ledger under construction
        /\ used + Units(pool[pos].w) <= Budget         \* and the gas fits
        /\ led' = (led \ {pool[pos].in}) \cup {pos}
        /\ used' = used + Units(pool[pos].w)
        /\ sel' = Append(sel, pos)
        /\ selrel' = IF pos \in tb.rel THEN selrel \cup {pos} ELSE selrel
        /\ pos' = pos + 1
        /\ UNCHANGED <<pool, tb>>
LeaveOut == /\ pos <= Len(pool)      \* always allowed: no room, no time left, input gone, or any policy of the builder
            /\ pos' = pos + 1
            /\ UNCHANGED <<pool, tb, sel, led, used, selrel>>
Next == Take \/ LeaveOut

(* what the node must never do *)
NoChildWithoutParent == ~ChildWithoutParent(pool, tb, sel)
NoConflictPair       == ~ConflictPair(pool, tb, sel)
WithinBudget         == used <= Budget /\ used = UnitsOf(pool, sel)
SubsequenceOfPool    == InArrivalOrder(sel) /\ (sel # <<>> => sel[Len(sel)] < pos)
(* the finished template, read from scratch: it applies to the ledger of the best block *)
ProposedBlockValid   == pos > Len(pool) => /\ BlockValid(pool, sel)
                                           /\ ApplyAll(pool, Ledger0(pool), sel, 1) = led
                                           /\ Classes(pool, tb, sel) = {}
(* the structural reading and the ledger reading agree on the next transaction *)
GuardExact ==
  pos <= Len(pool) =>
    (Classes(pool, tb, Append(sel, pos)) = {}) = (pool[pos].in \in led /\ used + Units(pool[pos].w) <= Budget)

(* Unrelated transactions influence the rest only through the gas they use: states are identified up to them. *)
View == <<pool, pos, used, selrel>>

=============================================================================
