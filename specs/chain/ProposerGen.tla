---------------------------- MODULE ProposerGen ----------------------------
(* Export of the pool shapes of Proposer.tla: one case per pool (printed when its    *)
(* initial state is generated) with the inputs of the judging predicate and the      *)
(* descriptors the coverage counters are computed from. The builder process itself   *)
(* is explored for the design invariants only.                                       *)
EXTENDS Proposer, Json

CaseDoc(p, t) ==
  LET g == Greedy(p)
  IN [pool |-> [i \in 1..Len(p) |-> [id |-> i, w |-> p[i].w, in |-> p[i].in,
                                     parent |-> ParentOf(p, i),
                                     conflicts |-> IF i \in t.conf THEN ConflictOf(p, i) ELSE 0,
                                     batch |-> Batch(i)]],
      budget |-> Budget, batchn |-> BatchN,
      nheavy |-> Cardinality({ i \in 1..Len(p) : p[i].w = "heavy" }),
      firstunfit |-> g.fu,
      greedy |-> g.t,
      related |-> t.rel,
      \* children validated in a later batch than their parent / whose parent is the transaction that no longer fits
      crossbatch |-> { c \in t.kids : Batch(p[c].in) < Batch(c) },
      parentunfit |-> { c \in t.kids : g.fu # 0 /\ p[c].in = g.fu },
      hasconflict |-> t.conf # {}]

GInit == Init
GNext == Next
Export == (pos = 1) => PrintT("EXPORT " \o ToJson(CaseDoc(pool, tb)))
GView == View
=============================================================================
