--------------------------- MODULE ProposerJudge ---------------------------
(* C38, conformance side: judges the block template a real node built from a pool.   *)
(* obs.ndjson holds one record per replayed case (harness/cmd/c38):                  *)
(*   case      index of the exported pool shape (negative: negative control)         *)
(*   pool      the pool as exported by ProposerGen (id, w, in per transaction)       *)
(*   template  the non-coinbase transactions of the proposed block as pool ids, in   *)
(*             block order (0 = a transaction that is not in the pool)               *)
(*   gas       gas the real validation charged per pool transaction (concretisation) *)
(* The verdict lists the clauses of the property-level predicate the template breaks *)
(* (Classes), whether the template applies to the ledger of the best block within    *)
(* the budget (BlockValid), and whether both readings agree; it also re-checks the   *)
(* gas scaling on the measured numbers (units within budget <=> gas <= MaxBlockGas). *)
EXTENDS ProposerRules, Json

CONSTANT MaxBlockGas

VARIABLE i

Obs == ndJsonDeserialize("obs.ndjson")

PoolOf(o) == [k \in 1..Len(o.pool) |-> [id |-> o.pool[k].id, w |-> o.pool[k].w, in |-> o.pool[k].in]]
RECURSIVE GasOf(_, _, _)
GasOf(o, T, k) == IF k > Len(T) THEN 0 ELSE (IF T[k] \in 1..Len(o.gas) THEN o.gas[T[k]] ELSE 0) + GasOf(o, T, k + 1)

Verdict(o) ==
  LET p == PoolOf(o)
      t == Tabs(p)
      T == o.template
      cl == Classes(p, t, T)
      valid == BlockValid(p, T)
      u == UnitsOf(p, T)
      g == GasOf(o, T, 1)
  IN [case |-> o.case,
      wellformed |-> WellFormed(p) /\ \A k \in 1..Len(p) : p[k].id = k /\ p[k].w \in {"heavy", "small"},
      classes |-> cl, valid |-> valid, agree |-> (cl = {}) = valid,
      units |-> u, gas |-> g,
      scaled |-> Unknown(p, T) \/ Duplicate(p, T) \/ ((u <= Budget) = (g <= MaxBlockGas)),
      inorder |-> InArrivalOrder(T),
      greedy |-> T = Greedy(p).t,
      n |-> Len(T)]

(* one step per record *)
JInit == i = 0
JNext == i = 0 /\ i' \in 1..Len(Obs) /\ PrintT("EXPORT " \o ToJson(Verdict(Obs[i'])))
=============================================================================
