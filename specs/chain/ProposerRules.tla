---------------------------- MODULE ProposerRules ----------------------------
(* C38, second part: the property-level reading of a block template (shared by the  *)
(* builder model Proposer.tla and the judge ProposerJudge.tla). See Proposer.tla    *)
(* for the vocabulary (pool, transaction = [id, w, in], coins, units).              *)
EXTENDS Integers, Sequences, FiniteSets, TLC

CONSTANT Budget     \* block gas budget in units

Units(w) == IF w = "heavy" THEN 1 ELSE 0
WellFormed(p) == \A i \in 1..Len(p) : p[i].in # 0 /\ p[i].in < i /\ (p[i].in < 0 => 0 - p[i].in <= Len(p))

(* ------------------------------------------- property-level reading of a template *)
(* T is any sequence of transaction ids (0 = a transaction that is not in the pool). *)
(* Tabs(p): the relations of a pool, computed once per pool (TLC re-evaluates        *)
(* definitions at every reference; the tables live in the variable tb).              *)
Range(s) == { s[k] : k \in 1..Len(s) }
InSeq(T, x) == \E k \in 1..Len(T) : T[k] = x
ParentOf(p, t) == IF p[t].in > 0 THEN p[t].in ELSE 0
ConflictOf(p, t) == LET o == { u \in 1..Len(p) : u # t /\ p[u].in = p[t].in } IN IF o = {} THEN 0 ELSE CHOOSE u \in o : TRUE
Tabs(p) ==
  LET kids == { t \in 1..Len(p) : p[t].in > 0 }
      pars == { p[t].in : t \in kids }
      conf == { t \in 1..Len(p) : ConflictOf(p, t) # 0 }
  IN [kids |-> kids, conf |-> conf, rel |-> kids \cup pars \cup conf]

UnitsOf(p, T) == Cardinality({ k \in 1..Len(T) : T[k] \in 1..Len(p) /\ p[T[k]].w = "heavy" })     \* Units = 1 per heavy

Unknown(p, T)   == \E k \in 1..Len(T) : T[k] \notin 1..Len(p)
Duplicate(p, T) == Cardinality(Range(T)) # Len(T)
ChildWithoutParent(p, tb, T) ==        \* a transaction whose parent does not stand before it in T
  \E k \in 1..Len(T) : T[k] \in tb.kids /\ ~ \E j \in 1..(k - 1) : T[j] = p[T[k]].in
ConflictPair(p, tb, T) ==              \* two different transactions of T spend the same coin
  \E t \in tb.conf : InSeq(T, t) /\ \E u \in tb.conf : u # t /\ p[u].in = p[t].in /\ InSeq(T, u)
OverBudget(p, T)   == UnitsOf(p, T) > Budget
InArrivalOrder(T)  == \A k \in 1..(Len(T) - 1) : T[k] < T[k + 1]     \* not demanded by the property; reported only

Classes(p, tb, T) ==
  (IF Unknown(p, T) THEN {"unknown-transaction"} ELSE {}) \cup
  (IF Duplicate(p, T) THEN {"duplicate"} ELSE {}) \cup
  (IF ChildWithoutParent(p, tb, T) THEN {"child-without-parent"} ELSE {}) \cup
  (IF ConflictPair(p, tb, T) THEN {"conflict-pair"} ELSE {}) \cup
  (IF OverBudget(p, T) THEN {"over-budget"} ELSE {})

(* the same question asked of the ledger: applying T to the ledger of the best block *)
Ledger0(p) == { 0 - i : i \in 1..Len(p) }          \* the coins of the best block's ledger the pool may refer to
RECURSIVE ApplyAll(_, _, _, _)
ApplyAll(p, U, T, k) ==        \* U = unspent coins; result: the ledger after T[k..], or {0} ("does not apply"; 0 is no coin)
  IF k > Len(T) THEN U
  ELSE IF T[k] \notin 1..Len(p) THEN {0}
  ELSE IF p[T[k]].in \notin U THEN {0}
  ELSE ApplyAll(p, (U \ {p[T[k]].in}) \cup {T[k]}, T, k + 1)
BlockValid(p, T) == ApplyAll(p, Ledger0(p), T, 1) # {0} /\ ~OverBudget(p, T)

(* descriptors of a pool (exported with each case, used for the coverage counters) *)
RECURSIVE GreedyFrom(_, _, _, _, _)
GreedyFrom(p, i, U, g, acc) ==      \* the builder that takes whatever applies, in arrival order; fu = first transaction
  IF i > Len(p) THEN acc            \* it leaves out for lack of gas (0 = none)
  ELSE IF p[i].in \in U /\ g + Units(p[i].w) <= Budget
       THEN GreedyFrom(p, i + 1, (U \ {p[i].in}) \cup {i}, g + Units(p[i].w), [acc EXCEPT !.t = Append(@, i)])
       ELSE GreedyFrom(p, i + 1, U, g, IF acc.fu = 0 /\ p[i].in \in U THEN [acc EXCEPT !.fu = i] ELSE acc)
Greedy(p) == GreedyFrom(p, 1, Ledger0(p), 0, [t |-> <<>>, fu |-> 0])
=============================================================================
