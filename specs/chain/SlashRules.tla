----------------------------- MODULE SlashRules -----------------------------
(* The admission rules of the finality engine for one verification message,      *)
(* as a function of an arbitrary engine state (C18): given a tree of checkpoints  *)
(* (two branches from the finalized root, E = 2), the verifications already       *)
(* admitted, and a new verification v: s -> t, is it admitted, refused as         *)
(* slashable, or a repetition? Unlike CasperNode (states reachable through block  *)
(* and vote histories of bounded length) every *synthetic* state of the bounded   *)
(* shape is enumerated, so deep configurations (votes on a fork that split off    *)
(* below the source, spans across several epochs) are covered exhaustively.       *)
EXTENDS Integers, Sequences, FiniteSets, FiniteSetsExt, TLC, Json

CONSTANTS LenA, LenB,   \* checkpoints on branch A / branch B above the root (ids: A = 1..LenA, B = LenA+1..LenA+LenB)
          MaxOld        \* number of verifications already admitted (all by the voter under test)

Cps == 0..(LenA + LenB)
OnA(c) == c >= 1 /\ c <= LenA
OnB(c) == c > LenA
Depth(c) == IF c = 0 THEN 0 ELSE IF OnA(c) THEN c ELSE c - LenA          \* epoch number = height / 2
CpPar(c) == IF c = 0 THEN 0 ELSE IF c = 1 \/ c = LenA + 1 THEN 0 ELSE c - 1
RECURSIVE IsAnc(_, _)
IsAnc(a, b) == a = b \/ (b # 0 /\ IsAnc(a, CpPar(b)))

Links == {l \in [s : Cps, t : Cps] : Depth(l.s) < Depth(l.t)}             \* any link from a lower to a higher checkpoint

(* slashing conditions between two links of one validator *)
SameHeight(a, b) == Depth(a.t) = Depth(b.t) /\ a.t # b.t
Surrounds(a, b) == Depth(a.s) < Depth(b.s) /\ Depth(b.t) < Depth(a.t)
Slashable(a, b) == SameHeight(a, b) \/ Surrounds(a, b) \/ Surrounds(b, a)

(* the engine state is consistent: the voter's earlier votes are pairwise compatible *)
Consistent(old) == \A a, b \in old : a = b \/ ~Slashable(a, b)

Verdict(old, new) == IF new \in old THEN "dup"
                     ELSE IF \E a \in old : Slashable(a, new) THEN "refused" ELSE "admitted"

VARIABLE c
OldSets == {S \in UNION {kSubset(k, Links) : k \in 0..MaxOld} : Consistent(S)}
Cases == [old : OldSets, new : Links]
Init == c \in Cases /\ PrintT("EXPORT " \o ToJson([old |-> c.old, new |-> c.new, verdict |-> Verdict(c.old, c.new),
                                                    lenA |-> LenA, lenB |-> LenB]))
Next == UNCHANGED c
(* design check: an admitted vote keeps the set free of slashable pairs; a refused one would break it *)
Sound == LET v == Verdict(c.old, c.new) IN
         /\ (v = "admitted") => Consistent(c.old \cup {c.new})
         /\ (v = "refused") => ~Consistent(c.old \cup {c.new})
=============================================================================
