-------------------------------- MODULE Sync --------------------------------
(* C33 -- header / block sync responses (netsync/chainmgr/block_keeper.go           *)
(* locateHeaders, locateBlocks).                                                     *)
(*                                                                                   *)
(* The node knows a main chain m0 .. m<MainLen> and a side branch that forks after   *)
(* main height SideFork: s<SideFork+1> .. s<SideFork+SideLen>.  A peer sends a       *)
(* locator (any hashes: main, side or unknown, in any order), a stop hash and (for   *)
(* headers) a skip value.  LocateOk(req, resp) is the post-condition of the answer:  *)
(*   max       at most req.max items                                                 *)
(*   main      every item is a main-chain block                                      *)
(*   incr      heights strictly increase                                             *)
(*   start     if an answer is due, it is non-empty and its first item is the        *)
(*             highest main-chain locator entry, or genesis when there is none       *)
(*   stop      no item is above the stop block                                       *)
(*   empty     no items when the stop block is unknown, off the main chain or        *)
(*             below the start                                                       *)
(*   nopanic   the handler returned                                                  *)
(* The stride between items is deliberately left open (the property does not fix it).*)
(* A block is a record [c |-> "m" | "s" | "u" | "x", h |-> height]; "u" = a hash the *)
(* node does not know, "x" = an item returned by the code that is no block of the    *)
(* scenario.  skip is a little-endian base-2^15 limb sequence (5 limbs, < 2^64).     *)
EXTENDS Integers, Sequences, FiniteSets

CONSTANTS MainLen, SideFork, SideLen

Blk(c, h) == [c |-> c, h |-> h]
MainBlocks == {Blk("m", h) : h \in 0..MainLen}
SideBlocks == {Blk("s", h) : h \in (SideFork + 1)..(SideFork + SideLen)}
OnMain(b) == b \in MainBlocks
Known(b) == b \in MainBlocks \cup SideBlocks
Genesis == Blk("m", 0)

ASSUME SideFork + SideLen < MainLen      \* the side branch never becomes the best chain

SkipOk(s) == Len(s) = 5 /\ (\A i \in 1..5 : s[i] \in 0..32767) /\ s[5] <= 15

MainEntries(loc) == {i \in 1..Len(loc) : OnMain(loc[i])}
StartOf(loc) ==
  IF MainEntries(loc) = {} THEN Genesis
  ELSE loc[CHOOSE i \in MainEntries(loc) : \A j \in MainEntries(loc) : loc[j].h <= loc[i].h]
MustBeEmpty(req) == ~OnMain(req.stop) \/ req.stop.h < StartOf(req.loc).h

(* resp = [n |-> number of items returned, items |-> the items (a subsequence of the   *)
(* answer when it is long: every rule below that fails on a subsequence also fails on *)
(* the whole answer), panic |-> BOOLEAN]                                              *)
RMax(req, resp) == resp.n <= req.max
RMain(req, resp) == \A i \in 1..Len(resp.items) : OnMain(resp.items[i])
RIncr(req, resp) == \A i \in 1..(Len(resp.items) - 1) : resp.items[i].h < resp.items[i + 1].h
RStart(req, resp) == ~MustBeEmpty(req) => (resp.n > 0 /\ resp.items[1] = StartOf(req.loc))
RStop(req, resp) == OnMain(req.stop) => \A i \in 1..Len(resp.items) : resp.items[i].h <= req.stop.h
REmpty(req, resp) == MustBeEmpty(req) => resp.n = 0
RNoPanic(req, resp) == ~resp.panic

LocateOk(req, resp) ==
  /\ RNoPanic(req, resp) /\ RMax(req, resp) /\ RMain(req, resp) /\ RIncr(req, resp)
  /\ RStart(req, resp) /\ RStop(req, resp) /\ REmpty(req, resp)

Verdict(req, resp) ==
  [ok |-> LocateOk(req, resp), nopanic |-> RNoPanic(req, resp), max |-> RMax(req, resp), main |-> RMain(req, resp),
   incr |-> RIncr(req, resp), start |-> RStart(req, resp), stop |-> RStop(req, resp), empty |-> REmpty(req, resp),
   wantStart |-> StartOf(req.loc), wantEmpty |-> MustBeEmpty(req)]

(* a reference answer (one of the permitted ones): start, then every (skip+1)-th block, *)
(* ending with the stop block -- used by the design check: the post-condition is        *)
(* satisfiable for every request, for small skips                                       *)
RECURSIVE Walk(_, _, _, _)
Walk(h, stop, stride, room) ==
  IF room = 0 THEN <<>>
  ELSE IF h >= stop THEN <<Blk("m", stop)>>
  ELSE <<Blk("m", h)>> \o Walk(h + stride, stop, stride, room - 1)
RefAnswer(req, stride) ==
  IF MustBeEmpty(req) THEN [n |-> 0, items |-> <<>>, panic |-> FALSE]
  ELSE LET it == Walk(StartOf(req.loc).h, req.stop.h, stride, req.max) IN [n |-> Len(it), items |-> it, panic |-> FALSE]
=============================================================================
