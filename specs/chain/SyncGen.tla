------------------------------- MODULE SyncGen -------------------------------
(* Enumerates the sync requests of the bounded scenario (one TLC state per request), *)
(* checks on the specification that the post-condition is satisfiable (the reference *)
(* answer with strides 1, 2, 3 and 8 satisfies LocateOk) and exports every request   *)
(* with the constraints its answer must meet.                                        *)
EXTENDS Sync, Json, TLC

CONSTANTS MainPick, SidePick, NUnknown,   \* locator entries are drawn from these
          MaxLoc,                         \* locator length bound
          HeaderMax, BlockMax             \* item limits tried (the protocol's 1000 / 64 and small ones)

Pool == {Blk("m", h) : h \in MainPick} \cup {Blk("s", h) : h \in SidePick} \cup {Blk("u", k) : k \in 1..NUnknown}
Range(s) == {s[i] : i \in 1..Len(s)}
RECURSIVE Locs(_)
Locs(n) == IF n = 0 THEN {<<>>}
           ELSE Locs(n - 1) \cup {Append(s, b) : s \in {t \in Locs(n - 1) : Len(t) = n - 1}, b \in Pool} 
Locators == {s \in Locs(MaxLoc) : \A i, j \in 1..Len(s) : i # j => s[i] # s[j]}
Stops == MainBlocks \cup SideBlocks \cup {Blk("u", 9)}

Skips == { [name |-> "0",      limbs |-> <<0, 0, 0, 0, 0>>],
           [name |-> "1",      limbs |-> <<1, 0, 0, 0, 0>>],
           [name |-> "2",      limbs |-> <<2, 0, 0, 0, 0>>],
           [name |-> "7",      limbs |-> <<7, 0, 0, 0, 0>>],
           [name |-> "2^63",   limbs |-> <<0, 0, 0, 0, 8>>],
           [name |-> "2^64-2", limbs |-> <<32766, 32767, 32767, 32767, 15>>],
           [name |-> "2^64-1", limbs |-> <<32767, 32767, 32767, 32767, 15>>] }
Skip0 == [name |-> "0", limbs |-> <<0, 0, 0, 0, 0>>]

Requests ==
  [kind : {"headers"}, loc : Locators, stop : Stops, skip : Skips, max : HeaderMax] \cup
  [kind : {"blocks"}, loc : Locators, stop : Stops, skip : {Skip0}, max : BlockMax]

VARIABLE req
Export == PrintT("EXPORT " \o ToJson([req |-> req, wantStart |-> StartOf(req.loc), wantEmpty |-> MustBeEmpty(req)]))
GInit == req \in Requests
GNext == FALSE /\ UNCHANGED req
Satisfiable == /\ SkipOk(req.skip.limbs)
               /\ \A stride \in {1, 2, 3, 8} : LocateOk(req, RefAnswer(req, stride))
=============================================================================
