--------------------------- MODULE TraceNodeLocks ---------------------------
(* Trace validation of concurrent executions of a real node against the       *)
(* synchronisation skeleton NodeLocks.tla (property C37).                     *)
(*                                                                            *)
(* The Go driver (harness/cmd/c37) logs, ordered by one atomic counter:       *)
(*   begin / end   of every ProcessBlock (op block), ProcessBlockVerification *)
(*                 (vote), ValidateTx (tx) and read query (read, k = kind of  *)
(*                 lock the query takes) with the calling thread              *)
(*   mu.acq/mu.rel the trace points inside the write sections of Casper.mu    *)
(*                 (op apply = ApplyBlock, auth = AuthVerification, cached =  *)
(*                 authCachedMsg), taken while the lock is held               *)
(*   rb.send       before a rollback request is put on the rollback channel   *)
(*   bp.block / bp.rollback   the arm the block processor's select took       *)
(*   reset         a new node (next recorded workload)                        *)
(* Every other step of NodeLocks.tla (channel hand-overs, leaf sections, the  *)
(* block processor's way through processBlock/tryReorganize, the decisions of *)
(* the cached-verification loop) is silent: TLC searches for a placement of   *)
(* the silent steps that explains the recorded order. A recorded order that   *)
(* cannot be explained (two threads inside Casper.mu, a rollback request sent *)
(* from inside the lock, a rollback answered that nobody sent, a call that    *)
(* returns before the block processor answered it ...) is rejected.           *)
EXTENDS NodeLocks, Json, Integers

VARIABLES l
Trace == ndJsonDeserialize("trace.ndjson")
tvars == <<vars, l>>

TInit == Init /\ l = 1
Cur == Trace[l]
Is(e) == l <= Len(Trace) /\ Cur.ev = e
Adv == l' = l + 1

TBegin ==
  /\ Is("begin")
  /\ \/ Cur.op = "block" /\ Cur.th \in Feeders    /\ FBegin(Cur.th)
     \/ Cur.op = "vote"  /\ Cur.th \in Verifiers  /\ VBegin(Cur.th)
     \/ Cur.op = "tx"    /\ Cur.th \in Submitters /\ SBegin(Cur.th)
     \/ Cur.op = "read"  /\ Cur.th \in Readers /\ Cur.k \in ReadKinds /\ RBegin(Cur.th, Cur.k)
  /\ Adv
TEnd ==
  /\ Is("end") /\ Cur.th \in Callers
  /\ Cur.op = (CASE Cur.th \in Feeders -> "block" [] Cur.th \in Verifiers -> "vote"
                 [] Cur.th \in Submitters -> "tx" [] OTHER -> "read")
  /\ End(Cur.th)
  /\ Adv
TMuAcq ==
  /\ Is("mu.acq")
  /\ \/ Cur.op = "auth"   /\ Cur.th \in Verifiers /\ VAcq(Cur.th)
     \/ Cur.op = "apply"  /\ Cur.th = BP /\ BPApplyAcq
     \/ Cur.op = "cached" /\ Cur.th = CL /\ CLAcq
  /\ Adv
TMuRel ==
  /\ Is("mu.rel")
  /\ \/ Cur.op = "auth"   /\ Cur.th \in Verifiers /\ VRel(Cur.th)
     \/ Cur.op = "apply"  /\ Cur.th = BP /\ BPApplyRel
     \/ Cur.op = "cached" /\ Cur.th = CL /\ CLRel(FALSE)
  /\ Adv
TRbSend == Is("rb.send") /\ Cur.th \in Verifiers /\ VSend(Cur.th) /\ Adv
TBPBlock == Is("bp.block") /\ Cur.th = BP /\ BPTakeBlock /\ Adv
TBPRollback == Is("bp.rollback") /\ Cur.th = BP /\ BPTakeRb /\ Adv

Silent ==
  /\ \/ \E f \in Feeders : FSend(f) \/ FRecv(f)
     \/ \E v \in Verifiers : (\E c \in BOOLEAN : VWork(v, c)) \/ VRecv(v)
     \/ \E s \in Submitters : (\E k \in BOOLEAN : SHave(s, k)) \/ SBest(s) \/ SPool(s)
     \/ \E r \in Readers : RCond(r) \/ RMu(r)
     \/ BPSkip \/ (\E e \in BOOLEAN : BPSave(e)) \/ BPEpochSend \/ BPFailed \/ (\E e \in BOOLEAN : BPSubBlock(e))
     \/ BPBestChain \/ BPNoReorg \/ BPLastFinalized \/ BPCondAcq \/ BPCondRel
     \/ BPPoolSkip \/ BPPoolAcq \/ BPPoolRel \/ BPReplyBlock \/ BPReplyRb
     \/ CLTake \/ CLNone \/ CLCached \/ CLReadTree
  /\ UNCHANGED l

TReset ==
  /\ Is("reset")
  /\ pc' = [t \in Threads |-> "idle"]
  /\ mu' = "none" /\ mtx' = "none" /\ cond' = "none"
  /\ blockQ' = <<>> /\ rbQ' = <<>> /\ epochQ' = 0
  /\ reply' = [f \in Feeders |-> FALSE]
  /\ rbReply' = [v \in Verifiers |-> FALSE]
  /\ cur' = "none" /\ arm' = "none" /\ sub' = 0
  /\ chg' = [v \in Verifiers |-> FALSE]
  /\ cached' = 0
  /\ nblocks' = 0 /\ nvotes' = 0 /\ ntxs' = 0 /\ nreads' = 0 /\ nchanges' = 0
  /\ Adv

TNext == TBegin \/ TEnd \/ TMuAcq \/ TMuRel \/ TRbSend \/ TBPBlock \/ TBPRollback \/ TReset \/ Silent

TSpec == TInit /\ [][TNext]_tvars

(* "violated" by the state that has consumed the whole trace: acceptance witness *)
NotDone == l <= Len(Trace)
(* high-water mark of the consumed prefix, for diagnosing a rejection *)
ASSUME TLCSet(2, 0)
HW == IF l > TLCGet(2) THEN TLCSet(2, l) ELSE TRUE
Rejected == PrintT("NOTE hw " \o ToString(TLCGet(2))) /\ TRUE
=============================================================================
