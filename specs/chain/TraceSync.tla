------------------------------ MODULE TraceSync ------------------------------
(* Judges recorded (request, response) pairs of the real locateHeaders/locateBlocks: *)
(* one TLC state per pair; the verdict of every rule of Sync!LocateOk is exported.   *)
EXTENDS Sync, Json, TLC

Pairs == ndJsonDeserialize("trace.ndjson")
VARIABLE i
TInit == i \in 1..Len(Pairs)
TNext == FALSE /\ UNCHANGED i
Judge == PrintT("EXPORT " \o ToJson([i |-> i, id |-> Pairs[i].id, v |-> Verdict(Pairs[i].req, Pairs[i].resp)]))
WellFormed == SkipOk(Pairs[i].req.skip.limbs) /\ Pairs[i].resp.n >= Len(Pairs[i].resp.items)
=============================================================================
