--------------------------- MODULE ValidatorSets ---------------------------
(* Who may vote for a checkpoint (property C17): the effective validators of *)
(* the PARENT epoch, each in the slot of its order in that epoch. The set    *)
(* changes from epoch to epoch through vote and veto transactions, so the    *)
(* validators of three consecutive epochs are independent parameters here:   *)
(*                                                                            *)
(*   R (root, height 0) --b1--> C1 (height E) --b3--> C2 (height 2E)          *)
(*   ev[0] = validators established by R   : they vote for links R  -> C1     *)
(*   ev[1] = validators established by C1  : they vote for links C1 -> C2     *)
(*   ev[2] = validators established by C2  : entitled to nothing in this tree *)
(*                                                                            *)
(* Calls of the engine: the blocks of an epoch (the checkpoint block carries  *)
(* verification signatures in header slots), verification messages, restart.  *)
(* A header slot counts iff it holds the signature of the key that has this   *)
(* order in the parent epoch; a message counts iff its key is such a          *)
(* validator; a checkpoint is justified by more than 2/3 of the parent        *)
(* epoch's validators on one link from a justified source, and its direct     *)
(* parent is finalized with it. The node's own key is not a validator.        *)
(* Votes for C2 are only generated once C1 is justified (the recorded C17     *)
(* finding "justified from an unjustified source" is the casper family's).    *)
EXTENDS Integers, Sequences, FiniteSets, TLC

CONSTANTS Menus,      \* set of triples <<ev0, ev1, ev2>> of sequences of distinct keys
          Keys,       \* all keys that may sign
          MaxCalls

VARIABLES ev,       \* the chosen triple
          have,     \* highest checkpoint whose blocks were delivered (0..2)
          links,    \* admitted verifications [t, slot] (the source is t-1)
          status,   \* [0..2 -> {"N","U","J","F"}]
          ncalls,
          last      \* the last call with its expected result

vars == <<ev, have, links, status, ncalls, last>>

Order(seq, k) == IF \E i \in 1..Len(seq) : seq[i] = k THEN (CHOOSE i \in 1..Len(seq) : seq[i] = k) - 1 ELSE -1
Voters(t) == ev[t]                      \* ev is 1-indexed: ev[t] = validators of the parent epoch of checkpoint t (t = 1, 2)
Majority(n, size) == 3 * n > 2 * size   \* more than two thirds

Count(ls, t) == Cardinality({l \in ls : l.t = t})

(* admit the slots in `add` (orders of entitled validators) for checkpoint t, then justify / finalize *)
Admit(ls, st, t, add) ==
  LET ls2 == ls \cup {[t |-> t, slot |-> o] : o \in add}
      just == st[t] = "U" /\ st[t - 1] = "J" /\ Majority(Count(ls2, t), Len(Voters(t)))
      st2 == IF just THEN [st EXCEPT ![t] = "J", ![t - 1] = "F"] ELSE st
  IN [links |-> ls2, status |-> st2]

Init == /\ ev \in Menus /\ have = 0 /\ links = {}
        /\ status = [c \in 0..2 |-> IF c = 0 THEN "J" ELSE "N"]
        /\ ncalls = 0 /\ last = [op |-> "init"]

(* candidate header entries for checkpoint t: the rightful key of every slot, the key the NEXT epoch has in that slot, *)
(* and a key that is a validator of neither epoch                                                                     *)
Cands(t) == {[slot |-> i - 1, key |-> ev[t][i]] : i \in 1..Len(ev[t])}
            \cup {[slot |-> i - 1, key |-> ev[t + 1][i]] : i \in 1..Len(ev[t + 1])}
            \cup {[slot |-> 0, key |-> k] : k \in {k \in Keys : Order(ev[t], k) = -1 /\ Order(ev[t + 1], k) = -1}}

(* the blocks of epoch t are delivered; the checkpoint block carries `car` *)
Blocks(t, car) ==
  /\ ncalls < MaxCalls /\ have = t - 1
  /\ car \subseteq Cands(t) /\ Cardinality(car) <= 4
  /\ \A a, b \in car : a.slot = b.slot => a = b
  /\ (t = 2 /\ status[1] # "J") => car = {}
  /\ LET good == {c.slot : c \in {c \in car : c.slot < Len(Voters(t)) /\ Voters(t)[c.slot + 1] = c.key}}
         r == Admit(links, [status EXCEPT ![t] = "U"], t, good)
     IN /\ links' = r.links /\ status' = r.status
        /\ last' = [op |-> "blocks", t |-> t, car |-> car, err |-> FALSE]
  /\ have' = t /\ ncalls' = ncalls + 1 /\ UNCHANGED ev

(* Casper.AuthVerification: a verification message of key k for the link t-1 -> t *)
Vote(k, t) ==
  /\ ncalls < MaxCalls /\ have >= t
  /\ status[t] \in {"U", "J"} /\ status[t - 1] \in {"J", "F"}    \* the target is not the finalized root, the source is justified
  /\ LET o == Order(Voters(t), k) IN
     IF o = -1
       THEN /\ last' = [op |-> "vote", key |-> k, t |-> t, err |-> TRUE] /\ UNCHANGED <<links, status>>
       ELSE LET r == Admit(links, status, t, {o}) IN
            /\ links' = r.links /\ status' = r.status
            /\ last' = [op |-> "vote", key |-> k, t |-> t, err |-> FALSE]
  /\ ncalls' = ncalls + 1 /\ UNCHANGED <<ev, have>>

Restart ==
  /\ ncalls < MaxCalls /\ have >= 1 /\ last.op # "restart"
  /\ last' = [op |-> "restart"] /\ ncalls' = ncalls + 1
  /\ UNCHANGED <<ev, have, links, status>>

Next == \/ \E t \in 1..2 : \E car \in SUBSET Cands(t) : Blocks(t, car)
        \/ \E k \in Keys, t \in 1..2 : Vote(k, t)
        \/ Restart

Spec == Init /\ [][Next]_vars

-----------------------------------------------------------------------------
(* C17 on the rule itself *)
JustifiedHasSupermajority ==
  \A t \in 1..2 : status[t] \in {"J", "F"} => Majority(Count(links, t), Len(Voters(t)))
OnlyEntitled == \A l \in links : l.slot < Len(Voters(l.t))
FinalizedHasJustifiedChild == \A t \in 0..1 : status[t] = "F" => status[t + 1] \in {"J", "F"}
TypeOK == /\ have \in 0..2 /\ status \in [0..2 -> {"N", "U", "J", "F"}]

View == <<ev, have, links, status, last.op = "restart">>

(* menus (sequences cannot be written in a cfg file) *)
MenusSmall == { << <<1, 2, 3, 4>>, <<5, 6, 7, 1, 2, 3, 4>>, <<1, 2, 3, 4>> >>,     \* newcomers lead the next epoch
                << <<1, 2, 3, 4>>, <<2, 1, 3, 4>>, <<5, 6, 7>> >>,                  \* reordered, then replaced
                << <<1, 2, 3>>, <<1, 2, 3>>, <<1, 2, 3>> >>,                        \* stable
                << <<1>>, <<2, 3, 4>>, <<1>> >> }                                   \* one validator, then three others
MenusMore == MenusSmall \cup
              { << <<1, 2, 3, 4, 5, 6>>, <<6, 5, 4>>, <<1, 2, 3, 4, 5, 6, 7>> >>,   \* shrinks, grows
                << <<3, 2, 1>>, <<1, 2, 3, 4, 5>>, <<5, 4>> >>,
                << <<1, 2>>, <<3, 4>>, <<1, 2>> >> }
Keys7 == 1..7
=============================================================================
