--------------------------- MODULE ValidatorSetsGen ---------------------------
(* Export of every explored transition of ValidatorSets with the call path that *)
(* reaches it and the expected engine state after every call.                   *)
EXTENDS ValidatorSets, Json
VARIABLE hist
Obs == [status |-> status, links |-> links, have |-> have]
GInit == Init /\ hist = <<>>
GNext == Next /\ hist' = Append(hist, [call |-> last', obs |-> Obs'])
Export == PrintT("EXPORT " \o ToJson([ev |-> ev, steps |-> hist']))
GView == View
=============================================================================
