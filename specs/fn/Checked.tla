------------------------------ MODULE Checked ------------------------------
(* C31 -- checked arithmetic is exact.                                        *)
(* The specification of every function of math/checked is one definition:    *)
(*   the operation is defined on the operands (divisor # 0, 0 <= shift < w), *)
(*   its mathematically exact result e is computed over the integers, and    *)
(*   the call returns (e, TRUE) when e lies in the range of the type, and    *)
(*   reports failure otherwise.                                              *)
(* Part 1 states it over TLC's integers (usable for small widths), part 2    *)
(* states the same definition over the limb integers of FnBigNat so that TLC *)
(* can evaluate it on real 32/64-bit operands recorded by the Go driver.     *)
(* CheckedSanity.tla checks exhaustively on small widths that both agree.    *)
EXTENDS FnBigNat

SignedOps   == {"add", "sub", "mul", "div", "mod", "neg", "shl"}
UnsignedOps == {"add", "sub", "mul", "div", "mod", "shl"}

-----------------------------------------------------------------------------
(* Part 1: mathematical integers *)
Abs(a) == IF a < 0 THEN 0 - a ELSE a
TruncDiv(a, b) == LET q == Abs(a) \div Abs(b) IN IF (a < 0) # (b < 0) THEN 0 - q ELSE q
TruncRem(a, b) == a - b * TruncDiv(a, b)          \* sign of the dividend

Defined(op, a, b, w) == CASE op \in {"div", "mod"} -> b # 0
                          [] op = "shl"            -> b >= 0 /\ b < w
                          [] OTHER                 -> TRUE

Exact(op, a, b) == CASE op = "add" -> a + b
                     [] op = "sub" -> a - b
                     [] op = "mul" -> a * b
                     [] op = "div" -> TruncDiv(a, b)
                     [] op = "mod" -> TruncRem(a, b)
                     [] op = "neg" -> 0 - a
                     [] op = "shl" -> a * 2^b

FailI == [ok |-> FALSE, v |-> 0]
RefI(op, a, b, lo, hi, w) ==
  IF ~Defined(op, a, b, w) THEN FailI
  ELSE LET e == Exact(op, a, b)
       IN IF lo <= e /\ e <= hi THEN [ok |-> TRUE, v |-> e] ELSE FailI

LoI(sg, w) == IF sg THEN 0 - 2^(w - 1) ELSE 0
HiI(sg, w) == IF sg THEN 2^(w - 1) - 1 ELSE 2^w - 1

-----------------------------------------------------------------------------
(* Part 2: the same definition on limb integers *)
LoB(sg, w) == IF sg THEN SMk(TRUE, Pow2(w - 1)) ELSE SZero
HiB(sg, w) == SMk(FALSE, Sub(Pow2(IF sg THEN w - 1 ELSE w), <<1>>))

DefinedB(op, a, b, w) == CASE op \in {"div", "mod"} -> b.m # <<>>
                           [] op = "shl"            -> ~b.n /\ Cmp(b.m, FromInt(w)) < 0
                           [] OTHER                 -> TRUE

ExactB(op, a, b) == CASE op = "add" -> SAdd(a, b)
                      [] op = "sub" -> SSub(a, b)
                      [] op = "mul" -> SMul(a, b)
                      [] op = "div" -> SQuot(a, b)
                      [] op = "mod" -> SRem(a, b)
                      [] op = "neg" -> SNeg(a)
                      [] op = "shl" -> SMul(a, SMk(FALSE, Pow2(ToInt(b.m))))

FailB == [ok |-> FALSE, v |-> SZero]
RefB(op, sg, w, a, b) ==
  IF ~DefinedB(op, a, b, w) THEN FailB
  ELSE LET e == ExactB(op, a, b)
       IN IF SLe(LoB(sg, w), e) /\ SLe(e, HiB(sg, w)) THEN [ok |-> TRUE, v |-> e] ELSE FailB

(* the four types of the package *)
TySigned(ty) == ty \in {"i32", "i64"}
TyWidth(ty)  == IF ty \in {"i32", "u32"} THEN 32 ELSE 64
RefTy(op, ty, a, b) == RefB(op, TySigned(ty), TyWidth(ty), a, b)
=============================================================================
