---------------------------- MODULE CheckedCases ----------------------------
(* C31: operands recorded by the Go driver (cases.ndjson, limb integers) are *)
(* judged by the specification: TLC evaluates the definition RefTy on every  *)
(* recorded case and exports the expected outcome.                           *)
EXTENDS Checked, TLC, Json

CONSTANT Batch                      \* cases judged per TLC state (amortises queue and output overhead)
VARIABLES i, done
Cases == ndJsonDeserialize("cases.ndjson")
NBatches == (Len(Cases) + Batch - 1) \div Batch

Judge(k) == LET r == RefTy(k.op, k.ty, k.a, k.b)
            IN [i |-> k.i, wf |-> IsInt(k.a) /\ IsInt(k.b), ok |-> r.ok, v |-> r.v]

CInit == i \in 1..NBatches /\ done = FALSE
CNext == /\ ~done /\ done' = TRUE /\ UNCHANGED i
         /\ LET lo == (i - 1) * Batch + 1
                hi == IF i * Batch < Len(Cases) THEN i * Batch ELSE Len(Cases)
            IN PrintT("EXPORT " \o ToJson([j \in 1..(hi - lo + 1) |-> Judge(Cases[lo + j - 1])]))
=============================================================================
