---------------------------- MODULE CheckedCases ----------------------------
(* C31: operands recorded by the Go driver (cases.ndjson, limb integers) are *)
(* judged by the specification: TLC evaluates the definition RefTy on every  *)
(* recorded case and exports the expected outcome.                           *)
EXTENDS Checked, TLC, Json

VARIABLES i, done
Cases == ndJsonDeserialize("cases.ndjson")

WellFormed(k) == IsInt(k.a) /\ IsInt(k.b)

CInit == i \in 1..Len(Cases) /\ done = FALSE
CNext == /\ ~done /\ done' = TRUE /\ UNCHANGED i
         /\ LET k == Cases[i]
                r == RefTy(k.op, k.ty, k.a, k.b)
            IN PrintT("EXPORT " \o ToJson([i |-> k.i, ok |-> r.ok, v |-> r.v]))
Inputs == ~done => WellFormed(Cases[i])
=============================================================================
