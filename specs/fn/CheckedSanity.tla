--------------------------- MODULE CheckedSanity ---------------------------
(* Design check for C31: on W-bit types, exhaustively over all operand pairs *)
(* of every operation, the limb-integer reference RefB (used as the oracle   *)
(* for real 32/64-bit operands) equals the definition over TLC's integers.   *)
(* The invariant is evaluated on the successor states so that all TLC        *)
(* workers share the work.                                                   *)
EXTENDS Checked, TLC

CONSTANT W
VARIABLES op, sg, a, b, ph

Range(s) == LoI(s, W)..HiI(s, W)
SInit == /\ sg \in BOOLEAN
         /\ op \in (IF sg THEN SignedOps ELSE UnsignedOps)
         /\ a \in Range(sg)
         /\ b \in (IF op = "neg" THEN {0} ELSE Range(sg))
         /\ ph = 0
SNext == ph = 0 /\ ph' = 1 /\ UNCHANGED <<op, sg, a, b>>
c == [op |-> op, sg |-> sg, a |-> a, b |-> b]

Agree == ph = 1 =>
  LET ri == RefI(c.op, c.a, c.b, LoI(c.sg, W), HiI(c.sg, W), W)
      rb == RefB(c.op, c.sg, W, SFromInt(c.a), SFromInt(c.b))
  IN /\ rb.ok = ri.ok
     /\ IsInt(rb.v)
     /\ SToInt(rb.v) = ri.v

(* the library primitives themselves, on all naturals below 2^W *)
NatOK == ph = 1 /\ c.op = "add" /\ ~c.sg =>
  LET x == FromInt(c.a)  y == FromInt(c.b) IN
  /\ IsNat(x) /\ ToInt(x) = c.a
  /\ ToInt(Add(x, y)) = c.a + c.b /\ IsNat(Add(x, y))
  /\ ToInt(Mul(x, y)) = c.a * c.b /\ IsNat(Mul(x, y))
  /\ (c.a >= c.b => ToInt(Sub(x, y)) = c.a - c.b /\ IsNat(Sub(x, y)))
  /\ Cmp(x, y) = (IF c.a < c.b THEN -1 ELSE IF c.a > c.b THEN 1 ELSE 0)
  /\ (c.b # 0 => LET qr == DivMod(x, y) IN
                 /\ ToInt(qr[1]) = c.a \div c.b /\ ToInt(qr[2]) = c.a % c.b
                 /\ IsNat(qr[1]) /\ IsNat(qr[2]))
  /\ (c.b <= W => ToInt(Pow2(c.b)) = 2^c.b)
=============================================================================
