---------------------------- MODULE CheckedTable ----------------------------
(* C31, binding E: the complete table of the definition at width W, exported *)
(* by TLC.  The Go driver lifts every row to real int32/int64/uint32/uint64  *)
(* operands (identity lift and homomorphic scaling by 2^(w-W)) and compares  *)
(* the result of the real function with the row.                             *)
(*   ok, v     : result at width W (range LoI..HiI)                          *)
(*   idok, idv : result of the same operation in a type wide enough for      *)
(*               every exact result of W-bit operands (identity lift);       *)
(*               idskip when the shift count is valid in the wide type only  *)
(*   dx        : division is exact (the (a*U, b) lift of div is sound)       *)
EXTENDS Checked, TLC, Json

CONSTANT W
VARIABLES op, sg, a, b

Range(s) == LoI(s, W)..HiI(s, W)

Wide == 2^30
Row(k) ==
  LET r  == RefI(k.op, k.a, k.b, LoI(k.sg, W), HiI(k.sg, W), W)
      id == RefI(k.op, k.a, k.b, IF k.sg THEN 0 - Wide ELSE 0, Wide, W)
  IN [W |-> W, op |-> k.op, sg |-> k.sg, a |-> k.a, b |-> k.b, ok |-> r.ok, v |-> r.v,
      idok |-> id.ok, idv |-> id.v, idskip |-> (k.op = "shl" /\ k.b >= W),
      dx |-> (k.op = "div" /\ k.b # 0 /\ TruncRem(k.a, k.b) = 0)]

TInit == /\ sg \in BOOLEAN
         /\ op \in (IF sg THEN SignedOps ELSE UnsignedOps)
         /\ a \in Range(sg)
         /\ b \in (IF op = "neg" THEN {0} ELSE Range(sg))
         /\ PrintT("EXPORT " \o ToJson(Row([op |-> op, sg |-> sg, a |-> a, b |-> b])))
TNext == UNCHANGED <<op, sg, a, b>>
=============================================================================
