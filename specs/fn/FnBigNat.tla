------------------------------ MODULE FnBigNat ------------------------------
(* Arbitrary-precision naturals and integers in pure TLA+.                   *)
(* TLC integers are 32-bit, so 64-bit operands of the checked arithmetic     *)
(* package are represented as little-endian sequences of limbs in            *)
(* 0..Base-1 with no most-significant zero limb (zero is <<>>).              *)
(* With Base = 32768 every intermediate product is < 2^31.  The sanity       *)
(* configurations instantiate Base = 4 / 8 and compare every operator with   *)
(* TLC's own integer arithmetic exhaustively on small widths.                *)
EXTENDS Integers, Sequences

CONSTANT Base

BNMax(a, b) == IF a >= b THEN a ELSE b

RECURSIVE Norm(_)
Norm(x) == IF x = <<>> THEN x
           ELSE IF x[Len(x)] = 0 THEN Norm(SubSeq(x, 1, Len(x) - 1)) ELSE x

RECURSIVE FromInt(_)            \* n >= 0
FromInt(n) == IF n = 0 THEN <<>> ELSE <<n % Base>> \o FromInt(n \div Base)

RECURSIVE ToInt(_)              \* only for values known to be small
ToInt(x) == IF x = <<>> THEN 0 ELSE x[1] + Base * ToInt(Tail(x))

Limb(x, i) == IF i <= Len(x) THEN x[i] ELSE 0

IsNat(x) == /\ \A i \in 1..Len(x) : x[i] \in 0..(Base - 1)
            /\ (Len(x) > 0 => x[Len(x)] # 0)

RECURSIVE CmpFrom(_, _, _)
CmpFrom(x, y, i) == IF i = 0 THEN 0
                    ELSE IF x[i] < y[i] THEN -1
                    ELSE IF x[i] > y[i] THEN 1
                    ELSE CmpFrom(x, y, i - 1)
Cmp(x, y) == IF Len(x) < Len(y) THEN -1
             ELSE IF Len(x) > Len(y) THEN 1
             ELSE CmpFrom(x, y, Len(x))

RECURSIVE AddC(_, _, _, _, _)
AddC(x, y, i, c, n) ==
  IF i > n THEN (IF c = 0 THEN <<>> ELSE <<c>>)
  ELSE LET s == Limb(x, i) + Limb(y, i) + c
       IN <<s % Base>> \o AddC(x, y, i + 1, s \div Base, n)
Add(x, y) == AddC(x, y, 1, 0, BNMax(Len(x), Len(y)))

RECURSIVE SubB(_, _, _, _)      \* requires x >= y
SubB(x, y, i, b) ==
  IF i > Len(x) THEN <<>>
  ELSE LET d == x[i] - Limb(y, i) - b
       IN IF d < 0 THEN <<d + Base>> \o SubB(x, y, i + 1, 1)
                   ELSE <<d>> \o SubB(x, y, i + 1, 0)
Sub(x, y) == Norm(SubB(x, y, 1, 0))

RECURSIVE MulLimbC(_, _, _, _)
MulLimbC(x, d, i, c) ==
  IF i > Len(x) THEN (IF c = 0 THEN <<>> ELSE <<c>>)
  ELSE LET p == x[i] * d + c
       IN <<p % Base>> \o MulLimbC(x, d, i + 1, p \div Base)
MulLimb(x, d) == IF d = 0 THEN <<>> ELSE MulLimbC(x, d, 1, 0)     \* 0 <= d < Base

RECURSIVE Zeros(_)
Zeros(k) == IF k = 0 THEN <<>> ELSE <<0>> \o Zeros(k - 1)
ShiftLimbs(x, k) == IF x = <<>> THEN x ELSE Zeros(k) \o x

RECURSIVE MulAcc(_, _, _)
MulAcc(x, y, i) == IF i > Len(y) THEN <<>>
                   ELSE Add(ShiftLimbs(MulLimb(x, y[i]), i - 1), MulAcc(x, y, i + 1))
Mul(x, y) == MulAcc(x, y, 1)

(* largest d in lo..hi with d*y <= r (precondition lo*y <= r) *)
RECURSIVE QDigit(_, _, _, _)
QDigit(r, y, lo, hi) ==
  IF lo = hi THEN lo
  ELSE LET mid == (lo + hi + 1) \div 2
       IN IF Cmp(MulLimb(y, mid), r) <= 0 THEN QDigit(r, y, mid, hi)
                                          ELSE QDigit(r, y, lo, mid - 1)

(* schoolbook long division, most significant limb first *)
RECURSIVE DivStep(_, _, _, _, _)
DivStep(x, y, i, q, r) ==
  IF i = 0 THEN <<Norm(q), r>>
  ELSE LET r1 == Norm(<<x[i]>> \o r)
           d  == QDigit(r1, y, 0, Base - 1)
       IN DivStep(x, y, i - 1, <<d>> \o q, Sub(r1, MulLimb(y, d)))
DivMod(x, y) == DivStep(x, y, Len(x), <<>>, <<>>)       \* y # <<>>; <<quotient, remainder>>

RECURSIVE Pow2R(_)
Pow2R(k) == IF k = 0 THEN <<1>> ELSE MulLimb(Pow2R(k - 1), 2)
Pow2Tab == [k \in 0..64 |-> Pow2R(k)]          \* constant, evaluated once by TLC
Pow2(k) == IF k <= 64 THEN Pow2Tab[k] ELSE Pow2R(k)

-----------------------------------------------------------------------------
(* Signed integers: [n |-> negative?, m |-> magnitude]; zero is never negative *)
SMk(neg, mag) == [n |-> neg /\ mag # <<>>, m |-> mag]
SZero == SMk(FALSE, <<>>)
SFromInt(k) == IF k < 0 THEN SMk(TRUE, FromInt(0 - k)) ELSE SMk(FALSE, FromInt(k))
SToInt(a) == IF a.n THEN 0 - ToInt(a.m) ELSE ToInt(a.m)
IsInt(a) == IsNat(a.m) /\ (a.n => a.m # <<>>)
SNeg(a) == SMk(~a.n, a.m)
SAdd(a, b) ==
  IF a.n = b.n THEN SMk(a.n, Add(a.m, b.m))
  ELSE LET c == Cmp(a.m, b.m)
       IN IF c = 0 THEN SZero
          ELSE IF c > 0 THEN SMk(a.n, Sub(a.m, b.m))
          ELSE SMk(b.n, Sub(b.m, a.m))
SSub(a, b) == SAdd(a, SNeg(b))
SMul(a, b) == SMk(a.n # b.n, Mul(a.m, b.m))
SQuot(a, b) == SMk(a.n # b.n, DivMod(a.m, b.m)[1])     \* truncating; b # 0
SRem(a, b) == SMk(a.n, DivMod(a.m, b.m)[2])            \* sign of the dividend; b # 0
SCmp(a, b) == IF a.n /\ ~b.n THEN -1
              ELSE IF ~a.n /\ b.n THEN 1
              ELSE IF a.n THEN Cmp(b.m, a.m) ELSE Cmp(a.m, b.m)
SLe(a, b) == SCmp(a, b) <= 0
=============================================================================
