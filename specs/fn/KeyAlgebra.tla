----------------------------- MODULE KeyAlgebra -----------------------------
(* C28 -- key derivation and signatures are consistent                       *)
(* (crypto/ed25519/chainkd, blockchain/pseudohsm).                           *)
(* A free term algebra. Terms are nested tuples:                             *)
(*   private keys   <<"Root", seed>>            <<"Child", k, sel>>          *)
(*   public keys    <<"Pub", k>>                <<"ChildPub", P, sel>>       *)
(*   signatures     <<"Sig", k, msg>>                                        *)
(*   ciphertexts    <<"Enc", k, pw>>                                         *)
(* with the single equation  ChildPub(Pub(k), s) = Pub(Child(k, s)).         *)
(* Oriented left to right it is a terminating, confluent rewrite rule; NormP *)
(* computes the normal form Pub(k') of a public-key term. Two terms denote   *)
(* the same value iff their normal forms are syntactically equal (distinct   *)
(* terms denote distinct values: derivation and hashing are collision-free). *)
EXTENDS Integers, Sequences, FiniteSets

Root(s)        == <<"Root", s>>
Child(k, sel)  == <<"Child", k, sel>>
Pub(k)         == <<"Pub", k>>
ChildPub(P, s) == <<"ChildPub", P, s>>
Sig(k, m)      == <<"Sig", k, m>>
Enc(k, pw)     == <<"Enc", k, pw>>

RECURSIVE NormP(_)
NormP(P) == IF P[1] = "Pub" THEN P
            ELSE LET Q == NormP(P[2]) IN Pub(Child(Q[2], P[3]))      \* ChildPub(Pub(k), s) -> Pub(Child(k, s))

PubEq(P, Q) == NormP(P) = NormP(Q)

(* Verify(P, m, s) <=> \E k : P = Pub(k) /\ s = Sig(k, m) *)
Verify(P, m, s) == s[1] = "Sig" /\ NormP(P) = Pub(s[2]) /\ s[3] = m

(* Dec(Enc(k, pw), pw') is defined iff pw' = pw *)
DecOK(c, pw) == c[3] = pw
Dec(c, pw) == c[2]                      \* meaningful only when DecOK

RECURSIVE Derive(_, _)                   \* iterated non-hardened child derivation
Derive(k, path) == IF path = <<>> THEN k ELSE Derive(Child(k, Head(path)), Tail(path))
RECURSIVE DeriveP(_, _)
DeriveP(P, path) == IF path = <<>> THEN P ELSE DeriveP(ChildPub(P, Head(path)), Tail(path))

(* the public-key term that derives path[1..j] privately and the rest publicly *)
SplitPub(seed, path, j) == DeriveP(Pub(Derive(Root(seed), SubSeq(path, 1, j))), SubSeq(path, j + 1, Len(path)))

(* all paths over Sels of length <= d *)
RECURSIVE Paths(_, _)
Paths(Sels, d) == IF d = 0 THEN { <<>> }
                  ELSE LET S == Paths(Sels, d - 1) IN S \cup { Append(p, s) : p \in S, s \in Sels }

(* the commutation theorem, for one seed and path *)
Commutes(seed, path) == \A j \in 0..Len(path) : NormP(SplitPub(seed, path, j)) = Pub(Derive(Root(seed), path))
=============================================================================
