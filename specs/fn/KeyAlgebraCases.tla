-------------------------- MODULE KeyAlgebraCases --------------------------
(* C28: terms recorded by the Go driver (random seeds, random non-hardened   *)
(* paths up to depth 8, random split between private and public derivation,  *)
(* near-miss variants) are normalised by TLC:                                *)
(*   k = "eq"  : a, b public-key terms            -> do they denote one key  *)
(*   k = "ver" : a public-key term, b private key, m signed, m2 verified     *)
(*                                               -> Verify(a, m2, Sig(b, m)) *)
EXTENDS KeyAlgebra, TLC, Json

CONSTANT Batch
VARIABLES i, done
Cases == ndJsonDeserialize("cases.ndjson")
NBatches == (Len(Cases) + Batch - 1) \div Batch

Judge(c) == [i |-> c.i,
             r |-> IF c.k = "eq" THEN PubEq(c.a, c.b) ELSE Verify(c.a, c.m2, Sig(c.b, c.m)),
             nf |-> NormP(c.a)]

CInit == i \in 1..NBatches /\ done = FALSE
CNext == /\ ~done /\ done' = TRUE /\ UNCHANGED i
         /\ LET lo == (i - 1) * Batch + 1
                hi == IF i * Batch < Len(Cases) THEN i * Batch ELSE Len(Cases)
            IN PrintT("EXPORT " \o ToJson([j \in 1..(hi - lo + 1) |-> Judge(Cases[lo + j - 1])]))
=============================================================================
