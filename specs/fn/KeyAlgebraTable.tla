-------------------------- MODULE KeyAlgebraTable --------------------------
(* C28, design + binding E: the universe of public-key terms over Seeds,     *)
(* Sels and paths of depth <= Depth (every split of every path between       *)
(* private and public derivation), normalised by TLC. For every term TLC     *)
(* exports                                                                   *)
(*   eq   : for every other term of the universe, whether both denote the    *)
(*          same key;                                                        *)
(*   ver  : for every private key k of the universe and messages m, m2,      *)
(*          whether Verify(term, m2, Sig(k, m)) holds;                        *)
(* and, once, the key-store table dec: Dec(Enc(Root(s), pw), pw2).           *)
EXTENDS KeyAlgebra, TLC, Json

CONSTANTS Seeds, Sels, Depth, Msgs, Pws
VARIABLES t, ph, res

AllPaths == Paths(Sels, Depth)
PrivKeys == { Derive(Root(s), p) : s \in Seeds, p \in AllPaths }
PubTerms == UNION { { SplitPub(s, p, j) : j \in 0..Len(p) } : s \in Seeds, p \in AllPaths }

RECURSIVE SetToSeq(_)
SetToSeq(X) == IF X = {} THEN <<>> ELSE LET x == CHOOSE y \in X : TRUE IN <<x>> \o SetToSeq(X \ {x})

PubSeq == SetToSeq(PubTerms)
PrivSeq == SetToSeq(PrivKeys)
MsgSeq == SetToSeq(Msgs)

TInit == t \in 0..Len(PubSeq) /\ ph = 0 /\ res = <<>>

Doc(a) ==
  IF a = 0
  THEN [kind |-> "store",
        dec |-> SetToSeq({ [seed |-> s, pw |-> p, pw2 |-> q, ok |-> DecOK(Enc(Root(s), p), q)] : s \in Seeds, p \in Pws, q \in Pws }),
        priv |-> PrivSeq]
  ELSE LET P == PubSeq[a] IN
       [kind |-> "pub", a |-> a, term |-> P,
        eq  |-> [b \in 1..Len(PubSeq) |-> [b |-> b, term |-> PubSeq[b], eq |-> PubEq(P, PubSeq[b])]],
        ver |-> [x \in 1..(Len(PrivSeq) * Len(MsgSeq) * Len(MsgSeq)) |->
                   LET ki == (x - 1) \div (Len(MsgSeq) * Len(MsgSeq)) + 1
                       mi == (((x - 1) \div Len(MsgSeq)) % Len(MsgSeq)) + 1
                       ni == ((x - 1) % Len(MsgSeq)) + 1
                   IN [k |-> PrivSeq[ki], m |-> MsgSeq[mi], m2 |-> MsgSeq[ni],
                       ok |-> Verify(P, MsgSeq[ni], Sig(PrivSeq[ki], MsgSeq[mi]))]]]

TNext == \/ /\ ph = 0 /\ ph' = 1 /\ res' = Doc(t) /\ UNCHANGED t
         \/ /\ ph = 1 /\ ph' = 2 /\ PrintT("EXPORT " \o ToJson(res)) /\ UNCHANGED <<t, res>>

(* design theorems *)
CommuteThm == \A s \in Seeds : \A p \in AllPaths : Commutes(s, p)
ASSUME CommuteThm
(* a term equals exactly the other splits of its own (seed, path) *)
EqClasses == (ph >= 1 /\ t > 0) =>
  \A b \in 1..Len(res.eq) : res.eq[b].eq = (NormP(res.eq[b].term) = NormP(res.term))
(* a signature verifies under exactly one key of the universe and one message *)
VerifyPairs == (ph >= 1 /\ t > 0) =>
  \A x \in 1..Len(res.ver) : res.ver[x].ok = (NormP(res.term) = Pub(res.ver[x].k) /\ res.ver[x].m = res.ver[x].m2)
SomeVerify == (ph >= 1 /\ t > 0) => Cardinality({ x \in 1..Len(res.ver) : res.ver[x].ok }) = Cardinality(Msgs)
=============================================================================
