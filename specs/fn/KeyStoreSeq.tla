---------------------------- MODULE KeyStoreSeq ----------------------------
(* C28, the key store as a state machine over the key algebra: one root key  *)
(* Root(1) kept encrypted under a password. Every call of the pseudohsm API  *)
(* is one action; the expected result is a value of the algebra              *)
(* (Enc/Dec gating, Sig of the derived key). Every transition is exported    *)
(* with the call sequence reaching it and replayed on a real HSM directory.  *)
(* The observation after every call is the projection of the whole state:    *)
(* whether the key is listed and which passwords open it (probed with Load). *)
EXTENDS KeyAlgebra, TLC, Json

CONSTANTS Pws, MaxOps
VARIABLES present,   \* a key file for Root(1) exists
          pw,        \* password it is encrypted under
          n, last, hist

K == Root(1)
SignPaths == { <<>>, <<1, 2>> }
Msg == 1

SInit == present = FALSE /\ pw = 0 /\ n = 0 /\ last = [op |-> "init"] /\ hist = <<>>

Store == IF present THEN Enc(K, pw) ELSE <<"None", 0, 0>>
Opens(q) == present /\ DecOK(Store, q)            \* the stored key decrypts with q
Err(b) == IF b THEN "nil" ELSE "fail"

Import(p) ==            \* ImportKeyFromMnemonic under a fixed alias
  /\ last' = [op |-> "import", pw |-> p, err |-> Err(~present)]
  /\ IF present THEN UNCHANGED <<present, pw>> ELSE present' = TRUE /\ pw' = p

Load(q) ==              \* LoadChainKDKey
  /\ last' = [op |-> "load", pw |-> q, err |-> Err(Opens(q)), key |-> K]
  /\ UNCHANGED <<present, pw>>

Sign(q, path) ==        \* XSign
  /\ last' = [op |-> "sign", pw |-> q, path |-> path, msg |-> Msg, err |-> Err(Opens(q)),
              sig |-> Sig(Derive(K, path), Msg), pub |-> DeriveP(Pub(K), path)]
  /\ UNCHANGED <<present, pw>>

Reset(old, new) ==      \* ResetPassword
  /\ last' = [op |-> "reset", pw |-> old, new |-> new, err |-> Err(Opens(old))]
  /\ IF Opens(old) THEN pw' = new /\ UNCHANGED present ELSE UNCHANGED <<present, pw>>

Delete(q) ==            \* XDelete
  /\ last' = [op |-> "delete", pw |-> q, err |-> Err(Opens(q))]
  /\ IF Opens(q) THEN present' = FALSE /\ pw' = 0 ELSE UNCHANGED <<present, pw>>

SNext == /\ n < MaxOps /\ n' = n + 1
         /\ \/ \E p \in Pws : Import(p) \/ Load(p) \/ Delete(p)
            \/ \E p \in Pws, path \in SignPaths : Sign(p, path)
            \/ \E p \in Pws, q \in Pws : Reset(p, q)
         /\ hist' = Append(hist, [call |-> last', obs |-> [present |-> present',
                                                         opens |-> [p \in Pws |-> present' /\ pw' = p]]])

SView == <<present, pw, n>>
Export == PrintT("EXPORT " \o ToJson(hist'))

(* design: a signature produced through the store verifies under the publicly derived key *)
SignVerifies == last.op = "sign" => Verify(last.pub, last.msg, last.sig)
Gated == last.op \in {"load", "sign", "reset", "delete"} /\ last.err = "nil" => present \/ last.op = "delete"
=============================================================================
