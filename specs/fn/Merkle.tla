------------------------------- MODULE Merkle -------------------------------
(* C30 -- merkle inclusion proofs are sound and complete                      *)
(* (protocol/bc/types/merkle.go).                                            *)
(* Hash values are terms of a free algebra (collision-freeness): the leaf    *)
(* hash of list position i, the interior hash of two hashes, foreign values, *)
(* and the hash of the empty string. Transaction ids of one list are         *)
(* distinct, so a leaf is named by its position.                             *)
(*   Root(n)            root of the tree over positions 1..n                 *)
(*   Proof(n, S)        inclusion proof (hashes, 3-valued flags) for S       *)
(*   Validate(h,f,m,r)  the validation automaton                             *)
(* and the theorems of the property, stated for one (n, S) so that TLC       *)
(* checks them for every list size and subset of the configuration.          *)
EXTENDS Integers, Sequences, FiniteSets

Empty      == <<"E", 0, 0>>
Leaf(i)    == <<"L", i, 0>>
Foreign(k) == <<"X", k, 0>>
Node(l, r) == <<"N", l, r>>

FlagAssist == 0
FlagParent == 1
FlagLeaf   == 2

(* largest power of two k with k < n <= 2k, n >= 2 *)
RECURSIVE SplitFrom(_, _)
SplitFrom(n, k) == IF 2 * k >= n THEN k ELSE SplitFrom(n, 2 * k)
Split(n) == SplitFrom(n, 1)

RECURSIVE Tree(_, _)
Tree(lo, hi) == IF lo = hi THEN Leaf(lo)
                ELSE LET k == Split(hi - lo + 1)
                     IN Node(Tree(lo, lo + k - 1), Tree(lo + k, hi))
Root(n) == IF n = 0 THEN Empty ELSE Tree(1, n)

(* Range codes: the JSON-friendly names of hash values exchanged with the    *)
(* Go driver. <<"T",lo,hi>> is the node over positions lo..hi.               *)
Term(c) == CASE c[1] = "T" -> Tree(c[2], c[3])
             [] c[1] = "X" -> Foreign(c[2])
             [] OTHER      -> Empty
Terms(cs) == [i \in 1..Len(cs) |-> Term(cs[i])]
RootCode(n) == IF n = 0 THEN <<"E", 0, 0>> ELSE <<"T", 1, n>>

-----------------------------------------------------------------------------
(* Proof generation, in range codes. S is the set of related positions.      *)
RECURSIVE Gen(_, _, _)
Gen(lo, hi, S) ==            \* requires S \cap lo..hi # {}
  IF lo = hi THEN [h |-> << <<"T", lo, lo>> >>, f |-> <<FlagLeaf>>]
  ELSE LET mid == lo + Split(hi - lo + 1) - 1
           L == IF S \cap (lo..mid) # {} THEN Gen(lo, mid, S)
                ELSE [h |-> << <<"T", lo, mid>> >>, f |-> <<FlagAssist>>]
           R == IF S \cap ((mid + 1)..hi) # {} THEN Gen(mid + 1, hi, S)
                ELSE [h |-> << <<"T", mid + 1, hi>> >>, f |-> <<FlagAssist>>]
       IN [h |-> L.h \o R.h, f |-> <<FlagParent>> \o L.f \o R.f]

Proof(n, S) == IF n = 0 THEN [h |-> <<>>, f |-> <<>>]
               ELSE IF S \cap (1..n) = {} THEN [h |-> <<RootCode(n)>>, f |-> <<FlagAssist>>]
               ELSE Gen(1, n, S)

(* related hashes are presented in list order *)
RECURSIVE SortedSeq(_)
SortedSeq(S) == IF S = {} THEN <<>>
                ELSE LET m == CHOOSE x \in S : \A y \in S : x <= y
                     IN <<m>> \o SortedSeq(S \ {m})
RelCodes(S) == LET q == SortedSeq(S) IN [i \in 1..Len(q) |-> <<"T", q[i], q[i]>>]

-----------------------------------------------------------------------------
(* Validation: the flags drive a pre-order reconstruction of the root.       *)
(* h hashes, f flags, m related leaf hashes still to be matched.             *)
Bad(h, f, m) == [ok |-> FALSE, v |-> Empty, h |-> h, f |-> f, m |-> m]
RECURSIVE Eval(_, _, _)
Eval(h, f, m) ==
  IF f = <<>> THEN Bad(h, f, m)
  ELSE LET fl == Head(f)  ft == Tail(f) IN
       IF fl = FlagAssist THEN
            IF h = <<>> THEN Bad(h, ft, m)
            ELSE [ok |-> TRUE, v |-> Head(h), h |-> Tail(h), f |-> ft, m |-> m]
       ELSE IF fl = FlagLeaf THEN
            IF h # <<>> /\ m # <<>> /\ Head(h) = Head(m)
            THEN [ok |-> TRUE, v |-> Head(h), h |-> Tail(h), f |-> ft, m |-> Tail(m)]
            ELSE Bad(h, ft, m)
       ELSE IF fl = FlagParent THEN
            LET L == Eval(h, ft, m)
                R == Eval(L.h, L.f, L.m)
            IN [ok |-> L.ok /\ R.ok, v |-> Node(L.v, R.v), h |-> R.h, f |-> R.f, m |-> R.m]
       ELSE Bad(h, ft, m)

(* the empty proof stands for the empty tree *)
Validate(h, f, m, root) ==
  IF f = <<>> /\ h = <<>> THEN root = Empty /\ m = <<>>
  ELSE LET r == Eval(h, f, m) IN r.ok /\ r.v = root /\ r.m = <<>>

ValidateCodes(h, f, m, root) == Validate(Terms(h), f, Terms(m), Term(root))

-----------------------------------------------------------------------------
(* Tamperings of one (n, S): every variant is a record                       *)
(*   [k, i, x, g, rel]  kind, position, replacement code, replacement flag,  *)
(*                      related list (codes)                                 *)
NodeCodes(n) == { <<"T", lo, hi>> : lo \in 1..n, hi \in 1..n }
RECURSIVE IsNode(_, _, _, _)
IsNode(lo, hi, a, b) ==      \* is a..b a node of the tree over lo..hi
  IF a = lo /\ b = hi THEN TRUE
  ELSE IF lo = hi THEN FALSE
  ELSE LET mid == lo + Split(hi - lo + 1) - 1
       IN IF b <= mid THEN IsNode(lo, mid, a, b)
          ELSE IF a > mid THEN IsNode(mid + 1, hi, a, b) ELSE FALSE
TreeNodeCodes(n) == { c \in NodeCodes(n) : c[2] <= c[3] /\ IsNode(1, n, c[2], c[3]) }
HashAlts(n) == TreeNodeCodes(n) \cup { <<"X", 1, 0>>, <<"E", 0, 0>> }
FlagAlts == 0..3
RootAlts(n) == HashAlts(n) \cup { <<"X", 2, 0>> }

ReplaceAt(s, i, x) == [s EXCEPT ![i] = x]
InsertAt(s, i, x) == SubSeq(s, 1, i - 1) \o <<x>> \o SubSeq(s, i, Len(s))   \* before position i
RemoveAt(s, i) == SubSeq(s, 1, i - 1) \o SubSeq(s, i + 1, Len(s))

V0 == [k |-> "", i |-> 0, x |-> <<"E", 0, 0>>, g |-> 0, rel |-> <<>>]
Variants(n, S) ==
  LET P == Proof(n, S)  rel == RelCodes(S)  root == RootCode(n) IN
     { [V0 EXCEPT !.k = "hash", !.i = i, !.x = x, !.rel = rel] :
          i \in 1..Len(P.h), x \in HashAlts(n) } 
     \cup { [V0 EXCEPT !.k = "flag", !.i = j, !.g = g, !.rel = rel] : j \in 1..Len(P.f), g \in FlagAlts }
     \cup { [V0 EXCEPT !.k = "root", !.x = x, !.rel = rel] : x \in RootAlts(n) }
     \* a related hash that is not in the list / not covered by the proof: replaced, inserted
     \cup { [V0 EXCEPT !.k = "rel", !.rel = ReplaceAt(rel, i, x)] :
              i \in 1..Len(rel), x \in { <<"X", 1, 0>> } \cup { <<"T", p, p>> : p \in (1..n) \ S } }
     \cup { [V0 EXCEPT !.k = "rel", !.rel = InsertAt(rel, i, x)] :
              i \in 1..(Len(rel) + 1), x \in { <<"X", 1, 0>> } \cup { <<"T", p, p>> : p \in (1..n) \ S } }

ApplyP(P, root, v) ==      \* the (h, f, rel, root) a variant of proof P denotes
  [h    |-> IF v.k = "hash" THEN ReplaceAt(P.h, v.i, v.x) ELSE P.h,
   f    |-> IF v.k = "flag" THEN ReplaceAt(P.f, v.i, v.g) ELSE P.f,
   rel  |-> v.rel,
   root |-> IF v.k = "root" THEN v.x ELSE root]
Apply(n, S, v) == ApplyP(Proof(n, S), RootCode(n), v)

IsGenuineP(P, rel, root, v) == LET a == ApplyP(P, root, v) IN
  a.h = P.h /\ a.f = P.f /\ a.rel = rel /\ a.root = root
OutcomeP(P, root, v) == LET a == ApplyP(P, root, v) IN ValidateCodes(a.h, a.f, a.rel, a.root)
Outcome(n, S, v) == OutcomeP(Proof(n, S), RootCode(n), v)

-----------------------------------------------------------------------------
(* The property, for one (n, S) *)
Complete(n, S) == LET P == Proof(n, S) IN ValidateCodes(P.h, P.f, RelCodes(S), RootCode(n))
Sound(n, S) == LET P == Proof(n, S)  rel == RelCodes(S)  root == RootCode(n) IN
               \A v \in Variants(n, S) : OutcomeP(P, root, v) = IsGenuineP(P, rel, root, v)
(* shape facts used by the driver: flags and hashes line up *)
WellShaped(n, S) == LET P == Proof(n, S) IN
  /\ Len(P.h) = Cardinality({j \in 1..Len(P.f) : P.f[j] # FlagParent})
  /\ Cardinality({j \in 1..Len(P.f) : P.f[j] = FlagLeaf}) = Cardinality(S)
=============================================================================
