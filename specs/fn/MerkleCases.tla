---------------------------- MODULE MerkleCases ----------------------------
(* C30: proofs produced by the real GetTxMerkleTreeProof for random lists of *)
(* up to 64 ids (mapped back to range codes through the node-hash table the  *)
(* driver computes from Split), and random tamperings of them, are judged by *)
(* the specification: TLC evaluates Validate on each recorded case.          *)
(*   exp    : outcome the specification assigns to the recorded (h,f,rel,root)*)
(*   rootok : the recorded block root is Root(n)                             *)
(*   same   : (genuine cases) the recorded proof is exactly Proof(n, S)      *)
EXTENDS Merkle, TLC, Json

CONSTANT Batch
VARIABLES i, done
Cases == ndJsonDeserialize("cases.ndjson")
NBatches == (Len(Cases) + Batch - 1) \div Batch

Judge(c) == LET S == {c.S[j] : j \in 1..Len(c.S)}
                P == Proof(c.n, S)
            IN [i |-> c.i,
                exp |-> ValidateCodes(c.h, c.f, c.rel, c.root),
                rootok |-> (Term(c.blockroot) = Root(c.n)),
                same |-> (c.h = P.h /\ c.f = P.f)]

CInit == i \in 1..NBatches /\ done = FALSE
CNext == /\ ~done /\ done' = TRUE /\ UNCHANGED i
         /\ LET lo == (i - 1) * Batch + 1
                hi == IF i * Batch < Len(Cases) THEN i * Batch ELSE Len(Cases)
            IN PrintT("EXPORT " \o ToJson([j \in 1..(hi - lo + 1) |-> Judge(Cases[lo + j - 1])]))
=============================================================================
