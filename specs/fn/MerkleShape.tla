---------------------------- MODULE MerkleShape ----------------------------
(* C30: the tree shape (split point for every node size up to NMax) exported *)
(* for the driver's node-hash table.                                         *)
EXTENDS Merkle, TLC, Json
CONSTANT NMax
VARIABLE x
SInit == x = 0 /\ PrintT("EXPORT " \o ToJson([splits |-> [m \in 1..NMax |-> IF m < 2 THEN 0 ELSE Split(m)]]))
SNext == UNCHANGED x
=============================================================================
