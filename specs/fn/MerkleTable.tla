---------------------------- MODULE MerkleTable ----------------------------
(* C30, design + binding E: for every list size n <= NMax and every subset   *)
(* S, TLC checks completeness and soundness under every single-element       *)
(* tampering, and exports the proof with all variants and the outcome the    *)
(* specification assigns to each.                                            *)
EXTENDS Merkle, TLC, Json

CONSTANTS NMax, DoExport
VARIABLES n, S, ph, res

MInit == n \in 0..NMax /\ S \in SUBSET (1..n) /\ ph = 0 /\ res = <<>>

RECURSIVE SetToSeq(_)
SetToSeq(X) == IF X = {} THEN <<>> ELSE LET x == CHOOSE y \in X : TRUE IN <<x>> \o SetToSeq(X \ {x})

Doc == LET P == Proof(n, S)
           rel == RelCodes(S)
           root == RootCode(n)
           vs == SetToSeq(Variants(n, S))
       IN [n |-> n, S |-> SortedSeq(S), h |-> P.h, f |-> P.f, rel |-> rel, root |-> root,
           splits |-> [m \in 1..(IF n < 2 THEN 1 ELSE n) |-> IF m < 2 THEN 0 ELSE Split(m)],
           ok |-> Complete(n, S),
           shape |-> WellShaped(n, S),
           vars |-> [j \in 1..Len(vs) |-> [k |-> vs[j].k, i |-> vs[j].i, x |-> vs[j].x, g |-> vs[j].g,
                                           rel |-> vs[j].rel, genuine |-> IsGenuineP(P, rel, root, vs[j]),
                                           exp |-> OutcomeP(P, root, vs[j])]]]

(* phase 1 evaluates the case once into the state; phase 2 exports it *)
MNext == \/ /\ ph = 0 /\ ph' = 1 /\ res' = Doc /\ UNCHANGED <<n, S>>
         \/ /\ ph = 1 /\ ph' = 2 /\ UNCHANGED <<n, S, res>>
            /\ (DoExport => PrintT("EXPORT " \o ToJson(res)))

(* the theorems of Merkle.tla, read off the evaluated case *)
CompleteInv == ph >= 1 => res.ok
SoundInv    == ph >= 1 => \A j \in 1..Len(res.vars) : res.vars[j].exp = res.vars[j].genuine
ShapeInv    == ph >= 1 => res.shape
=============================================================================
