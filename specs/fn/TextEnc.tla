------------------------------ MODULE TextEnc ------------------------------
(* C29 -- addresses and text encodings (common/address.go, common/bech32,    *)
(* encoding/base32, wallet/mnemonic). Strings are sequences of ASCII codes,  *)
(* byte strings sequences of 0..255. Everything is an executable operator so *)
(* that TLC computes expected strings / decode results.                      *)
EXTENDS Integers, Sequences, Bitwise

Bech32Charset == <<113, 112, 122, 114, 121, 57, 120, 56, 103, 102, 50, 116, 118, 100, 119, 48,
                   115, 51, 106, 110, 53, 52, 107, 104, 99, 101, 54, 109, 117, 97, 55, 108>>
Base32Std == <<65, 66, 67, 68, 69, 70, 71, 72, 73, 74, 75, 76, 77, 78, 79, 80, 81, 82, 83, 84, 85, 86, 87, 88, 89, 90, 50, 51, 52, 53, 54, 55>>
Base32Hex == <<48, 49, 50, 51, 52, 53, 54, 55, 56, 57, 65, 66, 67, 68, 69, 70, 71, 72, 73, 74, 75, 76, 77, 78, 79, 80, 81, 82, 83, 84, 85, 86>>
Gen == <<996825010, 642813549, 513874426, 1027748829, 705979059>>
SepOne == 49      \* '1'
PadEq  == 61      \* '='

IsUpper(c) == c >= 65 /\ c <= 90
IsLower(c) == c >= 97 /\ c <= 122
Lower(c) == IF IsUpper(c) THEN c + 32 ELSE c
Upper(c) == IF IsLower(c) THEN c - 32 ELSE c
LowerStr(s) == [i \in 1..Len(s) |-> Lower(s[i])]
Map(s, F(_)) == [i \in 1..Len(s) |-> F(s[i])]

IndexIn(alphabet, c) ==       \* 0 when absent, else 1-based index
  IF \E k \in 1..Len(alphabet) : alphabet[k] = c
  THEN CHOOSE k \in 1..Len(alphabet) : alphabet[k] = c ELSE 0

-----------------------------------------------------------------------------
(* regrouping of bit groups (big-endian), as bit sequences *)
RECURSIVE BitsOf(_, _)
BitsOf(v, n) == IF n = 0 THEN <<>> ELSE BitsOf(v \div 2, n - 1) \o <<v % 2>>    \* n bits of v, most significant first
RECURSIVE Flatten(_, _, _)
Flatten(data, n, i) == IF i > Len(data) THEN <<>> ELSE BitsOf(data[i], n) \o Flatten(data, n, i + 1)
RECURSIVE ValOf(_, _, _)
ValOf(bits, lo, hi) == IF lo > hi THEN 0 ELSE 2 * ValOf(bits, lo, hi - 1) + bits[hi]
AllZero(bits, lo, hi) == \A k \in lo..hi : bits[k] = 0

(* ConvertBits(data, from, to, pad): [ok, out]. Without padding a trailing     *)
(* incomplete group must be shorter than `from` bits... BIP-173: at most 4     *)
(* bits, all zero.                                                           *)
ConvertBits(data, from, to, pad) ==
  LET bits == Flatten(data, from, 1)
      full == Len(bits) \div to
      rest == Len(bits) % to
      groups == [g \in 1..full |-> ValOf(bits, (g - 1) * to + 1, g * to)]
  IN IF rest = 0 THEN [ok |-> TRUE, out |-> groups]
     ELSE IF pad THEN [ok |-> TRUE,
                       out |-> groups \o << ValOf(bits, full * to + 1, Len(bits)) * 2^(to - rest) >>]
     ELSE IF rest > 4 \/ ~AllZero(bits, full * to + 1, Len(bits)) THEN [ok |-> FALSE, out |-> <<>>]
     ELSE [ok |-> TRUE, out |-> groups]

-----------------------------------------------------------------------------
(* bech32 (BIP-173) *)
PolyStep(chk, v) ==
  LET b  == shiftR(chk, 25)
      c0 == ((chk & 33554431) * 32) ^^ v
      c1 == IF b % 2 = 1 THEN c0 ^^ Gen[1] ELSE c0
      c2 == IF (b \div 2) % 2 = 1 THEN c1 ^^ Gen[2] ELSE c1
      c3 == IF (b \div 4) % 2 = 1 THEN c2 ^^ Gen[3] ELSE c2
      c4 == IF (b \div 8) % 2 = 1 THEN c3 ^^ Gen[4] ELSE c3
  IN IF (b \div 16) % 2 = 1 THEN c4 ^^ Gen[5] ELSE c4
RECURSIVE PolymodFrom(_, _, _)
PolymodFrom(vals, i, chk) == IF i > Len(vals) THEN chk ELSE PolymodFrom(vals, i + 1, PolyStep(chk, vals[i]))
Polymod(vals) == PolymodFrom(vals, 1, 1)

HrpExpand(hrp) == [i \in 1..Len(hrp) |-> hrp[i] \div 32] \o <<0>> \o [i \in 1..Len(hrp) |-> hrp[i] % 32]
Checksum(hrp, data) ==
  LET pm == Polymod(HrpExpand(hrp) \o data \o <<0, 0, 0, 0, 0, 0>>) ^^ 1
  IN [i \in 1..6 |-> shiftR(pm, 5 * (6 - i)) % 32]
VerifyChecksum(hrp, data) == Polymod(HrpExpand(hrp) \o data) = 1

Bech32Encode(hrp, data) ==      \* hrp: codes, data: 5-bit values
  LET all == data \o Checksum(hrp, data)
  IN hrp \o <<SepOne>> \o [i \in 1..Len(all) |-> Bech32Charset[all[i] + 1]]

RECURSIVE LastOneFrom(_, _)
LastOneFrom(s, k) == IF k = 0 THEN 0 ELSE IF s[k] = SepOne THEN k ELSE LastOneFrom(s, k - 1)
LastOne(s) == LastOneFrom(s, Len(s))           \* position of the last '1', 0 when absent
Bech32Index == [c \in 0..127 |-> IndexIn(Bech32Charset, c)]     \* constant table, evaluated once
NoDec == [ok |-> FALSE, hrp |-> <<>>, data |-> <<>>]
Bech32Decode(s0) ==
  IF Len(s0) < 8 \/ Len(s0) > 90 THEN NoDec
  ELSE IF \E k \in 1..Len(s0) : s0[k] < 33 \/ s0[k] > 126 THEN NoDec
  ELSE IF (\E k \in 1..Len(s0) : IsUpper(s0[k])) /\ (\E k \in 1..Len(s0) : IsLower(s0[k])) THEN NoDec
  ELSE LET s == LowerStr(s0)
           p == LastOne(s)
       IN IF p < 2 \/ p + 6 > Len(s) THEN NoDec
          ELSE LET hrp == SubSeq(s, 1, p - 1)
                   chars == SubSeq(s, p + 1, Len(s))
               IN IF \E k \in 1..Len(chars) : Bech32Index[chars[k]] = 0 THEN NoDec
                  ELSE LET vals == [k \in 1..Len(chars) |-> Bech32Index[chars[k]] - 1]
                       IN IF ~VerifyChecksum(hrp, vals) THEN NoDec
                          ELSE [ok |-> TRUE, hrp |-> hrp, data |-> SubSeq(vals, 1, Len(vals) - 6)]

-----------------------------------------------------------------------------
(* segwit addresses: witness version 0, program of 20 (P2WPKH) or 32 (P2WSH) bytes *)
EncodeAddr(hrp, prog) == Bech32Encode(hrp, <<0>> \o ConvertBits(prog, 8, 5, TRUE).out)

NoAddr == [ok |-> FALSE, hrp |-> <<>>, prog |-> <<>>]
DecodeAny(s) ==                   \* a well-formed version-0 segwit address of any prefix
  LET d == Bech32Decode(s) IN
  IF ~d.ok \/ Len(d.data) < 1 THEN NoAddr
  ELSE IF d.data[1] # 0 THEN NoAddr
  ELSE LET c == ConvertBits(SubSeq(d.data, 2, Len(d.data)), 5, 8, FALSE)
       IN IF ~c.ok \/ Len(c.out) \notin {20, 32} THEN NoAddr
          ELSE [ok |-> TRUE, hrp |-> d.hrp, prog |-> c.out]
DecodeAddr(s, nethrp) ==          \* decoding on the network whose prefix is nethrp
  LET d == DecodeAny(s) IN IF d.ok /\ d.hrp = nethrp THEN d ELSE NoAddr

-----------------------------------------------------------------------------
(* base32 (RFC 4648) with an alphabet; padded or unpadded *)
Base32Encode(bytes, alphabet, padded) ==
  LET v == ConvertBits(bytes, 8, 5, TRUE).out
      chars == [i \in 1..Len(v) |-> alphabet[v[i] + 1]]
      padn == IF padded /\ Len(v) % 8 # 0 THEN 8 - (Len(v) % 8) ELSE 0
  IN chars \o [i \in 1..padn |-> PadEq]

-----------------------------------------------------------------------------
(* mnemonic sentences as word indices; ck is the first byte of the checksum  *)
(* hash of the entropy (the hash function is not part of this specification) *)
MnemonicIdx(entropy, ck) ==
  LET cbits == Len(entropy) \div 4
      bits == Flatten(entropy, 8, 1) \o SubSeq(BitsOf(ck, 8), 1, cbits)
  IN [w \in 1..(Len(bits) \div 11) |-> ValOf(bits, (w - 1) * 11 + 1, w * 11)]
EntropyLenOK(n) == n \in {16, 20, 24, 28, 32}
=============================================================================
