---------------------------- MODULE TextEncCases ----------------------------
(* C29: inputs recorded by the Go driver (random programs, random bech32     *)
(* payloads, byte strings, entropy, mutated and arbitrary strings) judged by *)
(* the specification: TLC evaluates the TextEnc operators on every case.     *)
(*   k = "addr"   h prefix, d program        -> out address string           *)
(*   k = "dec"    s string, h prefix         -> ok, out program              *)
(*   k = "b32e"   h hrp, d 5-bit values      -> out string                   *)
(*   k = "b32d"   s string                   -> ok, out data, out2 hrp       *)
(*   k = "base32" d bytes, a alphabet, p pad -> out string                   *)
(*   k = "mn"     d entropy, n checksum byte -> out word indices             *)
EXTENDS TextEnc, TLC, Json

CONSTANT Batch
VARIABLES i, done
Cases == ndJsonDeserialize("cases.ndjson")
NBatches == (Len(Cases) + Batch - 1) \div Batch

R(c, ok, out, out2) == [i |-> c.i, ok |-> ok, out |-> out, out2 |-> out2]
Judge(c) ==
  CASE c.k = "addr"   -> R(c, TRUE, EncodeAddr(c.h, c.d), <<>>)
    [] c.k = "dec"    -> LET r == DecodeAddr(c.s, c.h) IN R(c, r.ok, r.prog, <<>>)
    [] c.k = "b32e"   -> R(c, TRUE, Bech32Encode(c.h, c.d), <<>>)
    [] c.k = "b32d"   -> LET r == Bech32Decode(c.s) IN R(c, r.ok, r.data, r.hrp)
    [] c.k = "base32" -> R(c, TRUE, Base32Encode(c.d, IF c.a = "std" THEN Base32Std ELSE Base32Hex, c.p), <<>>)
    [] c.k = "mn"     -> R(c, EntropyLenOK(Len(c.d)), MnemonicIdx(c.d, c.n), <<>>)

CInit == i \in 1..NBatches /\ done = FALSE
CNext == /\ ~done /\ done' = TRUE /\ UNCHANGED i
         /\ LET lo == (i - 1) * Batch + 1
                hi == IF i * Batch < Len(Cases) THEN i * Batch ELSE Len(Cases)
            IN PrintT("EXPORT " \o ToJson([j \in 1..(hi - lo + 1) |-> Judge(Cases[lo + j - 1])]))
=============================================================================
