---------------------------- MODULE TextEncTable ----------------------------
(* C29, design + binding E. For every network prefix and every program of    *)
(* the configured pattern family TLC checks: the address round-trips on its  *)
(* own network, is rejected on every other network, and every substitution   *)
(* of one character (by every bech32 character, the other-case letter, the   *)
(* separator, a space and three characters outside the charset) is rejected  *)
(* on every network. The address and all substitutions with the outcomes     *)
(* are exported for replay against common.DecodeAddress / EncodeAddress.     *)
EXTENDS TextEnc, TLC, Json

CONSTANTS Nets,        \* set of network prefixes (sequences of codes)
          Patterns     \* set of byte-pattern ids
CONSTANT NChunks      \* the substitution positions of one address are split over NChunks states
VARIABLES net, len, pat, chunk, ph, res

Byte(p, i) == CASE p = 0 -> 0
                [] p = 1 -> 255
                [] p = 2 -> (i * 37 + 11) % 256
                [] p = 3 -> IF i % 2 = 0 THEN 170 ELSE 85
                [] p = 4 -> (255 - i * 7) % 256
                [] p = 5 -> (i * i * 13 + 5) % 256
                [] p = 6 -> IF i = 1 THEN 128 ELSE 0
                [] OTHER -> (i * 101 + p * 17) % 256
Prog(p, n) == [i \in 1..n |-> Byte(p, i)]

(* candidate replacement characters for one position: every bech32 character, *)
(* the separator, space, 'b' 'i' 'o' '!' (outside the charset) and 0 = the     *)
(* same letter in the other case                                             *)
AltSeq == Bech32Charset \o <<SepOne, 32, 98, 105, 111, 33, 0>>
Toggle(c) == IF IsUpper(c) THEN Lower(c) ELSE Upper(c)
Repl(a, i, k) == IF AltSeq[k] = 0 THEN Toggle(a[i]) ELSE AltSeq[k]

(* prefixes of the main, test and solo networks: "bn", "tn", "sn" *)
AllNets == { <<98, 110>>, <<116, 110>>, <<115, 110>> }
NetSeq == << <<98, 110>>, <<116, 110>>, <<115, 110>> >>

TInit == net \in Nets /\ len \in {20, 32} /\ pat \in Patterns /\ chunk \in 0..(NChunks - 1) /\ ph = 0 /\ res = [ph |-> 0]

Changed(s, i, c) == [s EXCEPT ![i] = c]

(* the case document: address, decoding on every network, every substitution *)
Doc == LET a == EncodeAddr(net, Prog(pat, len))
           m == Len(AltSeq)
           own == DecodeAddr(a, net)
           up == DecodeAddr(Map(a, Upper), net)
           b == Bech32Decode(a)
       IN [net |-> net, prog |-> Prog(pat, len), addr |-> a,
           rt |-> (own.ok /\ own.prog = Prog(pat, len)),
           upper |-> (up.ok /\ up.prog = Prog(pat, len)),
           b32 |-> (b.ok /\ b.hrp = net /\ Bech32Encode(b.hrp, b.data) = a),
           decode |-> [k \in 1..Len(NetSeq) |-> [net |-> NetSeq[k], ok |-> DecodeAddr(a, NetSeq[k]).ok]],
           chunk |-> chunk,
           subst |-> [k \in 1..(((Len(a) - chunk + NChunks - 1) \div NChunks) * m) |->
                        LET i == ((k - 1) \div m) * NChunks + chunk + 1
                            c == Repl(a, i, ((k - 1) % m) + 1)
                            d == DecodeAny(Changed(a, i, c))
                        IN [i |-> i, c |-> c, same |-> (c = a[i]), ok |-> (d.ok /\ d.hrp \in Nets)]]]

(* phase 1 evaluates the document once into the state, phase 2 exports it *)
TNext == \/ /\ ph = 0 /\ ph' = 1 /\ res' = Doc /\ UNCHANGED <<net, len, pat, chunk>>
         \/ /\ ph = 1 /\ ph' = 2 /\ PrintT("EXPORT " \o ToJson(res)) /\ UNCHANGED <<net, len, pat, chunk, res>>

(* the theorems, read off the evaluated document *)
RoundTrip     == ph >= 1 => res.rt
UpperToo      == ph >= 1 => res.upper
OtherNets     == ph >= 1 => \A k \in 1..Len(res.decode) : res.decode[k].ok = (res.decode[k].net = net)
SubstRejected == ph >= 1 => \A k \in 1..Len(res.subst) : res.subst[k].ok = res.subst[k].same
Bech32RT      == ph >= 1 => res.b32
=============================================================================
