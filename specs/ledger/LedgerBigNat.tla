---------------------------- MODULE LedgerBigNat ----------------------------
(* Natural numbers beyond TLC's 32-bit integers: little-endian sequences of     *)
(* base-2^15 limbs without trailing zero limbs (<<>> is 0).  Products of two    *)
(* limbs plus carries stay below 2^31.  Used by Rewards (C14) and Builder (C27).*)
EXTENDS Integers, Sequences

BNBase == 32768

RECURSIVE BNNorm(_)
BNNorm(x) == IF x = <<>> THEN x
             ELSE IF x[Len(x)] = 0 THEN BNNorm(SubSeq(x, 1, Len(x) - 1)) ELSE x

RECURSIVE BNOf(_)
BNOf(n) == IF n = 0 THEN <<>> ELSE <<n % BNBase>> \o BNOf(n \div BNBase)     \* 0 <= n < 2^31

RECURSIVE BNToInt(_)
BNToInt(x) == IF x = <<>> THEN 0 ELSE x[1] + BNBase * BNToInt(Tail(x))       \* only for small x

BNIs(x) == /\ \A i \in 1..Len(x) : x[i] \in 0..(BNBase - 1)
           /\ (x # <<>> => x[Len(x)] # 0)
BNLimb(x, i) == IF i <= Len(x) THEN x[i] ELSE 0
BNMaxI(a, b) == IF a >= b THEN a ELSE b

RECURSIVE BNCmpAt(_, _, _)
BNCmpAt(x, y, i) == IF i = 0 THEN 0
                    ELSE IF x[i] < y[i] THEN -1 ELSE IF x[i] > y[i] THEN 1 ELSE BNCmpAt(x, y, i - 1)
BNCmp(x, y) == IF Len(x) < Len(y) THEN -1 ELSE IF Len(x) > Len(y) THEN 1 ELSE BNCmpAt(x, y, Len(x))
BNLt(x, y) == BNCmp(x, y) < 0
BNLe(x, y) == BNCmp(x, y) <= 0

RECURSIVE BNAddC(_, _, _, _, _)
BNAddC(x, y, i, c, n) ==
  IF i > n THEN (IF c = 0 THEN <<>> ELSE <<c>>)
  ELSE LET s == BNLimb(x, i) + BNLimb(y, i) + c IN <<s % BNBase>> \o BNAddC(x, y, i + 1, s \div BNBase, n)
BNAdd(x, y) == BNAddC(x, y, 1, 0, BNMaxI(Len(x), Len(y)))

RECURSIVE BNSubB(_, _, _, _)
BNSubB(x, y, i, b) ==
  IF i > Len(x) THEN <<>>
  ELSE LET d == x[i] - BNLimb(y, i) - b IN
       <<IF d < 0 THEN d + BNBase ELSE d>> \o BNSubB(x, y, i + 1, IF d < 0 THEN 1 ELSE 0)
BNSub(x, y) == BNNorm(BNSubB(x, y, 1, 0))          \* requires y <= x

RECURSIVE BNMulLimbC(_, _, _, _)
BNMulLimbC(x, d, i, c) ==
  IF i > Len(x) THEN (IF c = 0 THEN <<>> ELSE <<c>>)
  ELSE LET p == x[i] * d + c IN <<p % BNBase>> \o BNMulLimbC(x, d, i + 1, p \div BNBase)
BNMulLimb(x, d) == IF d = 0 THEN <<>> ELSE BNMulLimbC(x, d, 1, 0)            \* 0 <= d < BNBase

BNShift(x, k) == IF x = <<>> THEN x ELSE [i \in 1..k |-> 0] \o x               \* x * BNBase^k

RECURSIVE BNMulAcc(_, _, _)
BNMulAcc(x, y, i) == IF i > Len(y) THEN <<>>
                     ELSE BNAdd(BNShift(BNMulLimb(x, y[i]), i - 1), BNMulAcc(x, y, i + 1))
BNMul(x, y) == BNMulAcc(x, y, 1)

(* long division, one quotient limb at a time; the limb is found by bisection *)
RECURSIVE BNQDigit(_, _, _, _)
BNQDigit(r, y, lo, hi) ==          \* largest d in lo..hi with y*d <= r
  IF lo = hi THEN lo
  ELSE LET mid == (lo + hi + 1) \div 2 IN
       IF BNLe(BNMulLimb(y, mid), r) THEN BNQDigit(r, y, mid, hi) ELSE BNQDigit(r, y, lo, mid - 1)
RECURSIVE BNDivStep(_, _, _, _, _)
BNDivStep(x, y, i, q, r) ==
  IF i = 0 THEN <<BNNorm(q), r>>
  ELSE LET r1 == BNNorm(<<x[i]>> \o r)
           d  == BNQDigit(r1, y, 0, BNBase - 1)
       IN BNDivStep(x, y, i - 1, <<d>> \o q, BNSub(r1, BNMulLimb(y, d)))
BNDivMod(x, y) == BNDivStep(x, y, Len(x), <<>>, <<>>)     \* y # <<>>; result <<quotient, remainder>>

BNHalf(x) == BNDivMod(x, <<2>>)[1]
BNDouble(x) == BNAdd(x, x)
BNMin(x, y) == IF BNLe(x, y) THEN x ELSE y

RECURSIVE BNPow2(_)
BNPow2(k) == IF k = 0 THEN <<1>> ELSE BNDouble(BNPow2(k - 1))
RECURSIVE BNSumSeq(_, _)
BNSumSeq(s, i) == IF i > Len(s) THEN <<>> ELSE BNAdd(s[i], BNSumSeq(s, i + 1))
BNSum(s) == BNSumSeq(s, 1)
=============================================================================
