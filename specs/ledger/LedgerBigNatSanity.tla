------------------------- MODULE LedgerBigNatSanity -------------------------
(* Exhaustive sanity check of LedgerBigNat against TLC's own integers on small  *)
(* values (all pairs below Bound, plus multi-limb values built from them).      *)
EXTENDS LedgerBigNat, TLC
CONSTANT Bound
VARIABLE ab
SInit == ab \in (0..Bound) \X (0..Bound)
SNext == FALSE /\ UNCHANGED ab
Big(n) == n * 30011 + 17          \* up to ~3 limbs
A == Big(ab[1])
B == (Big(ab[2]) % 70001) + 1
SOk == /\ BNIs(BNOf(A)) /\ BNToInt(BNOf(A)) = A
       /\ BNToInt(BNAdd(BNOf(A), BNOf(B))) = A + B
       /\ (A >= B => BNToInt(BNSub(BNOf(A), BNOf(B))) = A - B)
       /\ BNCmp(BNOf(A), BNOf(B)) = (IF A < B THEN -1 ELSE IF A > B THEN 1 ELSE 0)
       /\ BNToInt(BNMul(BNOf(ab[1]), BNOf(B % 40000))) = ab[1] * (B % 40000)
       /\ LET qr == BNDivMod(BNOf(A), BNOf(B)) IN BNToInt(qr[1]) = A \div B /\ BNToInt(qr[2]) = A % B /\ BNIs(qr[1]) /\ BNIs(qr[2])
       /\ LET p == BNMul(BNOf(A), BNOf(B))  qr == BNDivMod(BNAdd(p, BNOf(B - 1)), BNOf(B)) IN qr[1] = BNOf(A) /\ qr[2] = BNOf(B - 1)
       /\ LET p == BNMul(BNMul(BNOf(A), BNOf(A)), BNOf(B))  qr == BNDivMod(p, BNMul(BNOf(A), BNOf(B))) IN qr[1] = BNOf(A) /\ qr[2] = <<>>
=============================================================================
