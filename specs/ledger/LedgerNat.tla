----------------------------- MODULE LedgerNat -----------------------------
(* Exact arithmetic on amounts that do not fit TLC's 32-bit integers.        *)
(* A number is a little-endian sequence of exactly NL limbs in base 2^15     *)
(* (NL = 6: 90 bits, enough for sums of thousands of 64-bit amounts).        *)
(* Signed values are records [neg |-> BOOLEAN, mag |-> limbs].               *)
EXTENDS Integers, Sequences

LBase == 32768
NL == 6

LZero == [i \in 1..NL |-> 0]
IsLimbs(a) == /\ Len(a) = NL /\ \A i \in 1..NL : a[i] \in 0..(LBase - 1)

(* small naturals (< 2^30) to limbs *)
LOf(n) == [i \in 1..NL |-> IF i = 1 THEN n % LBase ELSE IF i = 2 THEN (n \div LBase) % LBase ELSE 0]

RECURSIVE LAddC(_, _, _, _)
LAddC(a, b, i, c) == IF i > NL THEN <<>>
                     ELSE LET s == a[i] + b[i] + c IN <<s % LBase>> \o LAddC(a, b, i + 1, s \div LBase)
LAdd(a, b) == LAddC(a, b, 1, 0)

(* comparison from the most significant limb: -1, 0, 1 *)
RECURSIVE LCmpI(_, _, _)
LCmpI(a, b, i) == IF i = 0 THEN 0
                  ELSE IF a[i] < b[i] THEN -1 ELSE IF a[i] > b[i] THEN 1 ELSE LCmpI(a, b, i - 1)
LCmp(a, b) == LCmpI(a, b, NL)
LLeq(a, b) == LCmp(a, b) <= 0
LLt(a, b) == LCmp(a, b) < 0

(* a - b for a >= b *)
RECURSIVE LSubB(_, _, _, _)
LSubB(a, b, i, br) == IF i > NL THEN <<>>
                      ELSE LET d == a[i] - b[i] - br IN
                           IF d < 0 THEN <<d + LBase>> \o LSubB(a, b, i + 1, 1)
                                    ELSE <<d>> \o LSubB(a, b, i + 1, 0)
LSub(a, b) == LSubB(a, b, 1, 0)

RECURSIVE LSumSeq(_, _)
LSumSeq(s, i) == IF i > Len(s) THEN LZero ELSE LAdd(s[i], LSumSeq(s, i + 1))
LSum(s) == LSumSeq(s, 1)

(* 2^k as limbs, k < 15*NL *)
LPow2(k) == [i \in 1..NL |-> IF i = (k \div 15) + 1 THEN 2 ^ (k % 15) ELSE 0]
L63 == LPow2(63)                         \* 2^63
L64 == LPow2(64)                         \* 2^64
LOne == LOf(1)
LMaxI64 == LSub(L63, LOne)               \* 2^63 - 1
LMaxU64 == LSub(L64, LOne)               \* 2^64 - 1

(* value modulo 2^64 (for a < 2^90): drop everything from bit 64 up *)
LMod64(a) == [i \in 1..NL |-> IF i <= 4 THEN a[i] ELSE IF i = 5 THEN a[i] % 16 ELSE 0]

(* ---- signed values ---- *)
SPos(a) == [neg |-> FALSE, mag |-> a]
SNeg(a) == [neg |-> (a # LZero), mag |-> a]
SIsNeg(s) == s.neg
(* s - d, d unsigned *)
SSubU(s, d) == IF s.neg THEN SNeg(LAdd(s.mag, d))
               ELSE IF LLeq(d, s.mag) THEN SPos(LSub(s.mag, d)) ELSE SNeg(LSub(d, s.mag))
(* s + d, d unsigned *)
SAddU(s, d) == IF ~s.neg THEN SPos(LAdd(s.mag, d))
               ELSE IF LLeq(s.mag, d) THEN SPos(LSub(d, s.mag)) ELSE SNeg(LSub(s.mag, d))
(* fits int64: -2^63 <= s <= 2^63-1 *)
SFitsI64(s) == IF s.neg THEN LLeq(s.mag, L63) ELSE LLeq(s.mag, LMaxI64)
=============================================================================
