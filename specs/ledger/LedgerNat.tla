----------------------------- MODULE LedgerNat -----------------------------
(* Exact arithmetic on amounts that do not fit TLC's 32-bit integers.        *)
(* A number is a little-endian sequence of exactly NL limbs in base 2^15     *)
(* (NL = 6: 90 bits, enough for sums of thousands of 64-bit amounts).        *)
(* Signed values are records [neg |-> BOOLEAN, mag |-> limbs].               *)
EXTENDS Integers, Sequences

LBase == 32768
NL == 6

LZero == <<0, 0, 0, 0, 0, 0>>
IsLimbs(a) == /\ Len(a) = NL /\ \A i \in 1..NL : a[i] \in 0..(LBase - 1)

(* small naturals (< 2^30) to limbs *)
LOf(n) == [i \in 1..NL |-> IF i = 1 THEN n % LBase ELSE IF i = 2 THEN (n \div LBase) % LBase ELSE 0]

(* addition and subtraction are written out limb by limb (NL = 6): the carries are *)
(* LET definitions, which TLC evaluates once.                                      *)
LAdd(a, b) ==
  LET s1 == a[1] + b[1]
      s2 == a[2] + b[2] + (s1 \div LBase)
      s3 == a[3] + b[3] + (s2 \div LBase)
      s4 == a[4] + b[4] + (s3 \div LBase)
      s5 == a[5] + b[5] + (s4 \div LBase)
      s6 == a[6] + b[6] + (s5 \div LBase)
  IN <<s1 % LBase, s2 % LBase, s3 % LBase, s4 % LBase, s5 % LBase, s6 % LBase>>

(* comparison from the most significant limb: -1, 0, 1 *)
LCmp(a, b) ==
  IF a[6] # b[6] THEN (IF a[6] < b[6] THEN -1 ELSE 1)
  ELSE IF a[5] # b[5] THEN (IF a[5] < b[5] THEN -1 ELSE 1)
  ELSE IF a[4] # b[4] THEN (IF a[4] < b[4] THEN -1 ELSE 1)
  ELSE IF a[3] # b[3] THEN (IF a[3] < b[3] THEN -1 ELSE 1)
  ELSE IF a[2] # b[2] THEN (IF a[2] < b[2] THEN -1 ELSE 1)
  ELSE IF a[1] # b[1] THEN (IF a[1] < b[1] THEN -1 ELSE 1)
  ELSE 0
LLeq(a, b) == LCmp(a, b) <= 0
LLt(a, b) == LCmp(a, b) < 0

(* a - b for a >= b *)
LSub(a, b) ==
  LET d1 == a[1] - b[1]
      d2 == a[2] - b[2] - (IF d1 < 0 THEN 1 ELSE 0)
      d3 == a[3] - b[3] - (IF d2 < 0 THEN 1 ELSE 0)
      d4 == a[4] - b[4] - (IF d3 < 0 THEN 1 ELSE 0)
      d5 == a[5] - b[5] - (IF d4 < 0 THEN 1 ELSE 0)
      d6 == a[6] - b[6] - (IF d5 < 0 THEN 1 ELSE 0)
      N(d) == IF d < 0 THEN d + LBase ELSE d
  IN <<N(d1), N(d2), N(d3), N(d4), N(d5), N(d6)>>

RECURSIVE LSumSeq(_, _)
LSumSeq(s, i) == IF i > Len(s) THEN LZero ELSE LAdd(s[i], LSumSeq(s, i + 1))
LSum(s) == LSumSeq(s, 1)

(* 2^k as limbs, k < 15*NL *)
LPow2(k) == [i \in 1..NL |-> IF i = (k \div 15) + 1 THEN 2 ^ (k % 15) ELSE 0]
L63 == LPow2(63)                         \* 2^63
L64 == LPow2(64)                         \* 2^64
LOne == LOf(1)
LMaxI64 == LSub(L63, LOne)               \* 2^63 - 1
LMaxU64 == LSub(L64, LOne)               \* 2^64 - 1

(* value modulo 2^64 (for a < 2^90): drop everything from bit 64 up *)
LMod64(a) == [i \in 1..NL |-> IF i <= 4 THEN a[i] ELSE IF i = 5 THEN a[i] % 16 ELSE 0]

(* ---- signed values ---- *)
SPos(a) == [neg |-> FALSE, mag |-> a]
SNeg(a) == [neg |-> (a # LZero), mag |-> a]
SIsNeg(s) == s.neg
(* s - d, d unsigned *)
SSubU(s, d) == IF s.neg THEN SNeg(LAdd(s.mag, d))
               ELSE IF LLeq(d, s.mag) THEN SPos(LSub(s.mag, d)) ELSE SNeg(LSub(d, s.mag))
(* s + d, d unsigned *)
SAddU(s, d) == IF ~s.neg THEN SPos(LAdd(s.mag, d))
               ELSE IF LLeq(s.mag, d) THEN SPos(LSub(d, s.mag)) ELSE SNeg(LSub(s.mag, d))
(* fits int64: -2^63 <= s <= 2^63-1 *)
SFitsI64(s) == IF s.neg THEN LLeq(s.mag, L63) ELSE LLeq(s.mag, LMaxI64)
=============================================================================
