------------------------------ MODULE Rewards ------------------------------
(* C14 -- coinbase rewards (protocol/state/reward.go, checkpoint.go,              *)
(* protocol/validation/block.go checkCoinbaseAmount, proposal/proposal.go).        *)
(*                                                                                 *)
(* Every checkpoint (one per epoch of Epoch blocks) carries a reward table         *)
(* program -> amount.  Applying block b at height h credits its proposer (the      *)
(* program of the first coinbase output) with the fees of all its transactions     *)
(* plus Subsidy(V, h), where V is the vote total after the block's own votes and   *)
(*     Subsidy = min(R, floor(((2V + S) * R) / (2S))),  S = Init + floor(h*R / 2). *)
(* The first block of an epoch (h % Epoch = 1) must pay exactly the table          *)
(* accumulated in the previous epoch; every other block pays one zero output.      *)
(*                                                                                 *)
(* The code computes the subsidy with float64.  The reference is exact; where the  *)
(* exact rational lies within 10^-6 of an integer the neighbouring integer is also *)
(* admitted (DESIGN.md section 4 rule 5), so amounts are intervals [lo, hi] and     *)
(* lo = hi except in those ambiguous cases.  All amounts are LedgerBigNat numbers. *)
EXTENDS LedgerBigNat, FiniteSets, TLC

CONSTANTS Progs,        \* reward programs (model values or strings)
          Epoch         \* consensus.ActiveNetParams.BlocksOfEpoch

Reward == BNOf(570776255)                                   \* consensus.BlockReward
InitSupply == BNAdd(BNMul(BNOf(169290771), BNOf(1000000000)), BNOf(678579170))   \* consensus.InitBTMSupply = 169290771678579170
Million == BNOf(1000000)

(* heights are BigNat too (the driver uses heights far beyond 2^31) *)
Supply(h) == BNAdd(InitSupply, BNHalf(BNMul(h, Reward)))

(* [lo, hi, amb]: exact subsidy, widened by one where the exact rational is within 1e-6 of an integer *)
SubsidyRange(V, h) ==
  LET S  == Supply(h)
      N  == BNMul(BNAdd(BNDouble(V), S), Reward)
      D  == BNDouble(S)
      qr == BNDivMod(N, D)
      q  == qr[1]
      r  == qr[2]
      nearLow  == BNLt(BNMul(r, Million), D)                         \* frac < 1e-6
      nearHigh == BNLe(BNMul(BNSub(D, r), Million), D)               \* frac >= 1 - 1e-6
      lo0 == IF nearLow /\ q # <<>> THEN BNSub(q, <<1>>) ELSE q
      hi0 == IF nearHigh THEN BNAdd(q, <<1>>) ELSE q
  IN [lo |-> BNMin(lo0, Reward), hi |-> BNMin(hi0, Reward), exact |-> BNMin(q, Reward),
      amb |-> BNMin(lo0, Reward) # BNMin(hi0, Reward)]

Fee(tx) == BNSub(tx.in, tx.out)                   \* BTM in minus BTM out (in >= out for a valid transaction)
RECURSIVE FeeSum(_, _)
FeeSum(txs, i) == IF i > Len(txs) THEN <<>> ELSE BNAdd(Fee(txs[i]), FeeSum(txs, i + 1))

Zero == [lo |-> <<>>, hi |-> <<>>]
EmptyTable == [p \in Progs |-> Zero]
Credit(t, p, fees, sub) ==
  [t EXCEPT ![p] = [lo |-> BNAdd(BNAdd(@.lo, fees), sub.lo), hi |-> BNAdd(BNAdd(@.hi, fees), sub.hi)]]
Ambiguous(t) == \E p \in Progs : t[p].lo # t[p].hi

(* ---- the coinbase rule.  outs: sequence of [prog, amt]; table: [programs -> BigNat], 0 = no entry *)
Body(outs) == IF Len(outs) >= 1 /\ outs[1].amt = <<>> THEN Tail(outs) ELSE outs
RECURSIVE PaidTo(_, _, _)
PaidTo(body, p, i) == IF i > Len(body) THEN <<>>
                      ELSE BNAdd(IF body[i].prog = p THEN body[i].amt ELSE <<>>, PaidTo(body, p, i + 1))
CoinbaseOk(residue, outs, table) ==
  IF residue # 1 THEN Len(outs) = 1 /\ outs[1].amt = <<>>
  ELSE /\ Len(outs) >= 1
       /\ \A i \in 1..Len(Body(outs)) : Body(outs)[i].prog \in DOMAIN table /\ table[Body(outs)[i].prog] # <<>>
       /\ \A p \in DOMAIN table : PaidTo(Body(outs), p, 1) = table[p]
=============================================================================
