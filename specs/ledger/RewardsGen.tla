----------------------------- MODULE RewardsGen -----------------------------
(* State machine of reward accumulation over blocks, exported transition by     *)
(* transition (path + expected table) for replay through Checkpoint.Increase.   *)
EXTENDS Rewards, Json

CONSTANTS MaxBlocks,     \* blocks applied
          BaseK,         \* the first block has height BaseK * Epoch + 1 (BigNat-scaled by BaseUnit)
          BaseUnit,      \* heights start at BaseK * BaseUnit * Epoch
          FeeMenu,       \* names of fee lists
          VoteMenu       \* names of vote-total targets

VARIABLES n,            \* blocks applied so far
          votes,        \* vote total (BigNat)
          table,        \* reward table of the growing checkpoint
          prev,         \* table of the last completed epoch (what the next epoch's first block pays)
          tabs,         \* constant lookup tables (heights, vote targets, subsidies, fee lists), computed once in GInit
          last, hist

Base == BNMul(BNMul(BNOf(BaseK), BNOf(BaseUnit)), BNOf(Epoch))
HeightOf(k) == BNAdd(Base, BNOf(k))
Residue(k) == k % Epoch                       \* Base is a multiple of Epoch

Tx(i, o) == [in |-> i, out |-> o]
P60 == BNPow2(60)
Fees(name) ==
  CASE name = "none" -> <<>>
    [] name = "one"  -> <<Tx(BNOf(100450000), BNOf(100000000))>>
    [] name = "two"  -> <<Tx(BNOf(100450000), BNOf(100000000)), Tx(BNOf(1), <<>>)>>
    [] name = "huge" -> <<Tx(BNAdd(P60, BNOf(5)), BNOf(5)), Tx(BNOf(7), BNOf(7))>>

Target(name, h) ==
  LET S == Supply(h) IN
  CASE name = "zero"    -> <<>>
    [] name = "quarter" -> BNHalf(BNHalf(S))
    [] name = "halfm1"  -> BNSub(BNHalf(S), <<1>>)
    [] name = "half"    -> BNHalf(S)
    [] name = "halfp1"  -> BNAdd(BNHalf(S), <<1>>)
    [] name = "full"    -> S
    [] name = "huge"    -> BNPow2(62)

(* lookup tables computed once (in GInit, bound through singleton quantifiers so that TLC *)
(* evaluates each big-number expression a single time); transitions only add            *)
Heights == [k \in 1..MaxBlocks |-> HeightOf(k)]
FeeTab == [fn \in FeeMenu |-> [txs |-> Fees(fn), sum |-> FeeSum(Fees(fn), 1)]]
TabsInit ==
  \E hs \in {Heights} :
  \E tt \in {[vn \in VoteMenu |-> [k \in 1..MaxBlocks |-> Target(vn, hs[k])]]} :
  \E st \in {[vn \in VoteMenu |-> [k \in 1..MaxBlocks |-> SubsidyRange(tt[vn][k], hs[k])]]} :
  \E ft \in {FeeTab} :
  \E bd \in {BNMul(BNOf(Epoch), BNAdd(Reward, BNAdd(P60, BNOf(450001))))} :
  \E rw \in {Reward} : \E is \in {InitSupply} : \E bs \in {Base} :
     tabs = [h |-> hs, t |-> tt, s |-> st, f |-> ft, bound |-> bd, reward |-> rw, init |-> is, base |-> bs]

GInit == /\ n = 0 /\ votes = <<>> /\ table = EmptyTable /\ prev = EmptyTable
         /\ last = [p |-> "", fees |-> <<>>, votes |-> <<>>, h |-> <<>>, feeName |-> "", voteName |-> ""]
         /\ hist = <<>>
         /\ TabsInit

Block(p, fn, vn) ==
  LET k == n + 1
      first == Residue(k) = 1 \/ Epoch = 1
      cur == IF first THEN EmptyTable ELSE table
  IN /\ n < MaxBlocks
     /\ n' = k
     /\ votes' = tabs.t[vn][k]
     /\ prev' = IF first THEN table ELSE prev
     /\ table' = Credit(cur, p, tabs.f[fn].sum, tabs.s[vn][k])
     /\ last' = [p |-> p, fees |-> tabs.f[fn].txs, votes |-> tabs.t[vn][k], h |-> tabs.h[k], feeName |-> fn, voteName |-> vn]
     /\ hist' = Append(hist, last')
     /\ UNCHANGED tabs

GNext == \E p \in Progs, fn \in FeeMenu, vn \in VoteMenu : Block(p, fn, vn)

GView == <<n, votes, table, prev>>
Obs == [n |-> n, h |-> IF n = 0 THEN tabs.base ELSE tabs.h[n], votes |-> votes, table |-> table, prev |-> prev,
        amb |-> Ambiguous(table), epoch |-> Epoch, reward |-> tabs.reward, init |-> tabs.init,
        nextResidue |-> Residue(n + 1)]
Export == PrintT("EXPORT " \o ToJson([calls |-> hist, obs |-> Obs]))

TypeOK == /\ BNIs(votes) /\ \A p \in Progs : BNIs(table[p].lo) /\ BNIs(table[p].hi) /\ BNLe(table[p].lo, table[p].hi)
(* no money from nowhere: an epoch's table never exceeds fees + Epoch * Reward, and at least Reward/2 per block *)
RECURSIVE TotalHi(_, _)
TotalHi(t, ps) == IF ps = {} THEN <<>> ELSE LET p == CHOOSE x \in ps : TRUE IN BNAdd(t[p].hi, TotalHi(t, ps \ {p}))
Bounded == BNLe(TotalHi(table, Progs), tabs.bound)
=============================================================================
