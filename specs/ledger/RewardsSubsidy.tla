--------------------------- MODULE RewardsSubsidy ---------------------------
(* C14, pure-function configuration: the subsidy at and around the pledge-rate   *)
(* threshold (vote total = half of the supply) and for very large vote totals,   *)
(* at several heights.  One TLC state per case; the exact interval is exported.  *)
EXTENDS Rewards, Json

CONSTANTS HeightSet,    \* heights below 2^31
          BigHeightSet, \* heights given in thousands (k stands for height k * 1000)
          Sixteenths    \* numerators j: vote total S*j/16 (+ -1, 0, +1)

VARIABLE c
AllHeights == {BNOf(h) : h \in HeightSet} \cup {BNMul(BNOf(k), BNOf(1000)) : k \in BigHeightSet}
VotesOf(h, j, d) ==
  LET base == BNDivMod(BNMul(Supply(h), BNOf(j)), BNOf(16))[1] IN
  IF d = 0 THEN base ELSE IF d = 1 THEN BNAdd(base, <<1>>) ELSE IF base = <<>> THEN <<>> ELSE BNSub(base, <<1>>)
Cases == {[h |-> hh, v |-> VotesOf(hh, j, d)] : hh \in AllHeights, j \in Sixteenths, d \in {-1, 0, 1}}
           \cup {[h |-> hh, v |-> BNPow2(k)] : hh \in AllHeights, k \in {40, 57, 62, 63}}
SInit == c \in Cases
SNext == FALSE /\ UNCHANGED c
SExport == LET s == SubsidyRange(c.v, c.h) IN
           PrintT("EXPORT " \o ToJson([h |-> c.h, votes |-> c.v, lo |-> s.lo, hi |-> s.hi, exact |-> s.exact, amb |-> s.amb,
                                       reward |-> Reward, init |-> InitSupply]))
(* the reference is monotone in the obvious bounds: R/2 <= subsidy <= R *)
SSound == LET s == SubsidyRange(c.v, c.h) IN
          /\ BNLe(s.lo, s.hi) /\ BNLe(s.hi, Reward) /\ BNLe(BNHalf(Reward), s.exact) /\ BNLe(s.lo, s.exact) /\ BNLe(s.exact, s.hi)
          /\ BNLe(BNSub(s.hi, s.lo), <<1>>)
          /\ (BNLt(Supply(c.h), BNDouble(c.v)) => s.hi = Reward)
=============================================================================
