---------------------------- MODULE TraceRewards ----------------------------
(* Judges recorded coinbase transactions: each record holds the reward table of  *)
(* the previous epoch's checkpoint, the residue (height % Epoch) of the block,   *)
(* the coinbase outputs and what the real code did with it (validation accepted  *)
(* it / the proposer produced it).  TLC evaluates Rewards!CoinbaseOk.            *)
EXTENDS Rewards, Json

Recs == ndJsonDeserialize("trace.ndjson")
VARIABLE i
TInit == i \in 1..Len(Recs)
TNext == FALSE /\ UNCHANGED i
Judge == PrintT("EXPORT " \o ToJson([i |-> i, id |-> Recs[i].id, want |-> CoinbaseOk(Recs[i].residue, Recs[i].outs, Recs[i].table)]))
WellFormed == /\ \A p \in DOMAIN Recs[i].table : BNIs(Recs[i].table[p])
              /\ \A k \in 1..Len(Recs[i].outs) : BNIs(Recs[i].outs[k].amt)
=============================================================================
