----------------------------- MODULE TxValidate -----------------------------
(* C01 - validated transactions conserve value and report the true fee.      *)
(*                                                                           *)
(* An abstract transaction is a record                                       *)
(*   [ins   : Seq([k, a, v, key, prog]),   k \in {"spend","issue","veto","coinbase"} *)
(*    outs  : Seq([k, a, v, key]),         k \in {"orig","vote","retire"}    *)
(*    first : BOOLEAN,     the transaction is Transactions[0] of its block   *)
(*    tr    : "zero" | "ok" | "past",      time range vs block height        *)
(*    size  : "pos" | "zero"]              serialized size                   *)
(* a = asset name ("BTM" or any other string), v = amount as LedgerNat limbs *)
(* (any value < 2^64), key = "ok" | "short" (length of the vote public key), *)
(* prog = "ok" | "fail" (does the program guarding the input succeed).       *)
(*                                                                           *)
(* Two things are defined:                                                   *)
(*   1. the PROPERTY, in exact arithmetic: Conserves(tx), BtmDiff(tx);       *)
(*   2. the RULE SET a validator has to apply (mux parity with the checked-  *)
(*      int64 discipline, per-entry rules, gas set-up): Accept(tx).          *)
(* The design theorem checked by TLC is  Accept # "no" => property; the      *)
(* binding to the code uses only the property as oracle:  if the code        *)
(* accepts, Conserves must hold and both the reported fee and TxData.Fee()   *)
(* must equal BtmDiff.                                                       *)
EXTENDS Integers, Sequences, FiniteSets, LedgerNat

BTM == "BTM"
MinVote == LOf(100000000)        \* consensus.MinVoteOutputAmount
GasSafe == LOf(1000000)          \* fee that certainly pays storage + VM gas of the template programs (<= 12 entries)
GasNone == LOf(200)              \* below consensus.VMGasRate the gas credit is 0: no program can run

Idx(s) == 1..Len(s)
IsCb(x) == x.k = "coinbase"
NCoinbase(tx) == Cardinality({i \in Idx(tx.ins) : IsCb(tx.ins[i])})
HasProg(tx) == \E i \in Idx(tx.ins) : ~IsCb(tx.ins[i])
Mixed(tx) == NCoinbase(tx) >= 1 /\ HasProg(tx)

(* totals are sums over the whole sequence with non-matching entries counted as 0 *)
OutTotal(tx, a) == LSum([j \in Idx(tx.outs) |-> IF tx.outs[j].a = a THEN tx.outs[j].v ELSE LZero])
OutTotalAll(tx) == LSum([j \in Idx(tx.outs) |-> tx.outs[j].v])

-----------------------------------------------------------------------------
(* 1. The property (exact arithmetic, no machine integers).                   *)
(* A coinbase input mints exactly the BTM the transaction pays out.           *)
InAsset(tx, i) == IF IsCb(tx.ins[i]) THEN BTM ELSE tx.ins[i].a
InValue(tx, i) == IF IsCb(tx.ins[i]) THEN OutTotal(tx, BTM) ELSE tx.ins[i].v
InTotal(tx, a) == LSum([i \in Idx(tx.ins) |-> IF InAsset(tx, i) = a THEN InValue(tx, i) ELSE LZero])

AssetsOf(tx) == {InAsset(tx, i) : i \in Idx(tx.ins)} \cup {tx.outs[j].a : j \in Idx(tx.outs)}
Conserves(tx) == /\ \A a \in AssetsOf(tx) \ {BTM} : InTotal(tx, a) = OutTotal(tx, a)
                 /\ LLeq(OutTotal(tx, BTM), InTotal(tx, BTM))
BtmDiff(tx) == IF LLeq(OutTotal(tx, BTM), InTotal(tx, BTM))
               THEN LSub(InTotal(tx, BTM), OutTotal(tx, BTM)) ELSE LZero

-----------------------------------------------------------------------------
(* 2. The rule set.                                                           *)
(* Value sources of the mux: one per input; the coinbase source carries the   *)
(* sum of all output amounts (protocol/bc/types/map.go).                      *)
SrcAmt(tx, i) == IF IsCb(tx.ins[i]) THEN OutTotalAll(tx) ELSE tx.ins[i].v
SrcAssets(tx) == {InAsset(tx, i) : i \in Idx(tx.ins)}
SrcTotal(tx, a) == LSum([i \in Idx(tx.ins) |-> IF InAsset(tx, i) = a THEN SrcAmt(tx, i) ELSE LZero])

(* checked int64: every amount <= 2^63-1; the running sums of non-negative    *)
(* terms are monotone, so "never overflows" = "the total fits".               *)
MuxSourcesOK(tx) == /\ \A i \in Idx(tx.ins) : LLeq(SrcAmt(tx, i), LMaxI64)
                    /\ \A a \in SrcAssets(tx) : LLeq(SrcTotal(tx, a), LMaxI64)
MuxDestsOK(tx) == \A j \in Idx(tx.outs) :
                    /\ tx.outs[j].a \in SrcAssets(tx)               \* a destination needs a source asset
                    /\ LLeq(tx.outs[j].v, LMaxI64)
Parity(tx, a) == SSubU(SPos(SrcTotal(tx, a)), OutTotal(tx, a))       \* sources - destinations, signed
MuxNoUnderflow(tx) == \A a \in SrcAssets(tx) : SFitsI64(Parity(tx, a))
MuxBalanced(tx) == /\ \A a \in SrcAssets(tx) \ {BTM} : Parity(tx, a) = SPos(LZero)
                   /\ BTM \in SrcAssets(tx) => ~SIsNeg(Parity(tx, BTM))
MuxFee(tx) == IF BTM \in SrcAssets(tx) /\ ~SIsNeg(Parity(tx, BTM)) THEN Parity(tx, BTM).mag ELSE LZero

OutRule(o) == o.k = "vote" => (o.key = "ok" /\ o.a = BTM /\ LLeq(MinVote, o.v))
InRule(tx, i) == LET x == tx.ins[i] IN
                 IF IsCb(x) THEN tx.first /\ i = 1 /\ NCoinbase(tx) = 1
                 ELSE IF x.k = "veto" THEN x.key = "ok" /\ x.prog = "ok"
                 ELSE x.prog = "ok"

Rules(tx) == /\ tx.size = "pos" /\ tx.tr # "past"
             /\ Len(tx.outs) >= 1                                    \* a version-1 transaction needs a result
             /\ MuxSourcesOK(tx) /\ MuxDestsOK(tx) /\ MuxNoUnderflow(tx) /\ MuxBalanced(tx)
             /\ \A j \in Idx(tx.outs) : OutRule(tx.outs[j])
             /\ \A i \in Idx(tx.ins) : InRule(tx, i)

(* "yes" | "no" | "gas?"  (gas?: depends on the exact serialized size, not modelled) *)
Accept(tx) == IF ~Rules(tx) THEN "no"
              ELSE IF ~HasProg(tx) THEN "yes"
              ELSE IF LLeq(GasSafe, MuxFee(tx)) THEN "yes"
              ELSE IF LLt(MuxFee(tx), GasNone) THEN "no" ELSE "gas?"

-----------------------------------------------------------------------------
(* Design theorem. A coinbase transaction that carries further inputs is the  *)
(* one shape for which the rule set above (which is the protocol's mapping)   *)
(* does not imply the property; it is exported like every other case and      *)
(* judged on the code by the property alone.                                  *)
Sound(tx) == (Accept(tx) # "no" /\ ~Mixed(tx)) => (Conserves(tx) /\ MuxFee(tx) = BtmDiff(tx))

(* What the binding compares: *)
Judge(tx) == [acc |-> Accept(tx), cons |-> Conserves(tx), fee |-> BtmDiff(tx), mixed |-> Mixed(tx)]
=============================================================================
