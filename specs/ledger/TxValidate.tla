----------------------------- MODULE TxValidate -----------------------------
(* C01 - validated transactions conserve value and report the true fee.      *)
(*                                                                           *)
(* An abstract transaction is a record                                       *)
(*   [ins   : Seq([k, a, v, key, prog]),   k \in {"spend","issue","veto","coinbase"} *)
(*    outs  : Seq([k, a, v, key]),         k \in {"orig","vote","retire"}    *)
(*    first : BOOLEAN,     the transaction is Transactions[0] of its block   *)
(*    tr    : "zero" | "ok" | "past",      time range vs block height        *)
(*    size  : "pos" | "zero"]              serialized size                   *)
(* a = asset name ("BTM" or any other string), v = amount as LedgerNat limbs *)
(* (any value < 2^64), key = "ok" | "short" (length of the vote public key), *)
(* prog = "ok" | "fail" (does the program guarding the input succeed).       *)
(*                                                                           *)
(* Two things are defined:                                                   *)
(*   1. the PROPERTY, in exact arithmetic: Conserves(tx), BtmDiff(tx);       *)
(*   2. the RULE SET a validator has to apply (mux parity with the checked-  *)
(*      int64 discipline, per-entry rules, gas set-up): Accept(tx).          *)
(* The design theorem checked by TLC is  Accept # "no" => property; the      *)
(* binding to the code uses only the property as oracle:  if the code        *)
(* accepts, Conserves must hold and both the reported fee and TxData.Fee()   *)
(* must equal BtmDiff.                                                       *)
EXTENDS Integers, Sequences, FiniteSets, LedgerNat

BTM == "BTM"
MinVote == LOf(100000000)        \* consensus.MinVoteOutputAmount
GasSafe == LOf(1000000)          \* fee that certainly pays storage + VM gas of the template programs (<= 12 entries)
GasNone == LOf(200)              \* below consensus.VMGasRate the gas credit is 0: no program can run

Idx(s) == 1..Len(s)
IsCb(x) == x.k = "coinbase"
NCoinbase(tx) == Cardinality({i \in Idx(tx.ins) : IsCb(tx.ins[i])})
HasProg(tx) == \E i \in Idx(tx.ins) : ~IsCb(tx.ins[i])
Mixed(tx) == NCoinbase(tx) >= 1 /\ HasProg(tx)

(* amounts of the entries of a sequence that satisfy a predicate, and their exact sum *)
AmtsWhere(seq, P(_), V(_)) == LET sel == SelectSeq([i \in Idx(seq) |-> i], P) IN [n \in Idx(sel) |-> V(sel[n])]
OutTotal(tx, a) == LET P(j) == tx.outs[j].a = a  V(j) == tx.outs[j].v IN LSum(AmtsWhere(tx.outs, P, V))
OutTotalAll(tx) == LSum([j \in Idx(tx.outs) |-> tx.outs[j].v])

InAsset(tx, i) == IF IsCb(tx.ins[i]) THEN BTM ELSE tx.ins[i].a
AssetsOf(tx) == {InAsset(tx, i) : i \in Idx(tx.ins)} \cup {tx.outs[j].a : j \in Idx(tx.outs)} \cup {BTM}
SrcAssets(tx) == {InAsset(tx, i) : i \in Idx(tx.ins)}

(* Per-asset totals of one transaction, computed once (T == Totals(tx)):          *)
(*   out[a]  exact sum of the outputs of asset a                                  *)
(*   in[a]   exact sum of the inputs of asset a. The protocol defines the value   *)
(*           of a coinbase input as the sum of all output amounts of its          *)
(*           transaction, in BTM (the mux source built by protocol/bc/types/      *)
(*           map.go, which is part of the transaction id): it mints what is paid. *)
(*   src[a]  sum of the mux value sources of asset a (the same numbers, kept      *)
(*           apart because the rule set is stated on the mux)                     *)
Totals(tx) ==
  LET as == AssetsOf(tx)
      out == [a \in as |-> OutTotal(tx, a)]
      all == OutTotalAll(tx)
  IN [out |-> out, all |-> all,
      in  |-> [a \in as |-> LET P(i) == InAsset(tx, i) = a
                                V(i) == IF IsCb(tx.ins[i]) THEN all ELSE tx.ins[i].v
                            IN LSum(AmtsWhere(tx.ins, P, V))],
      src |-> [a \in as |-> LET P(i) == InAsset(tx, i) = a
                                V(i) == IF IsCb(tx.ins[i]) THEN all ELSE tx.ins[i].v
                            IN LSum(AmtsWhere(tx.ins, P, V))]]

-----------------------------------------------------------------------------
(* 1. The property (exact arithmetic, no machine integers).                   *)
ConservesT(tx, T) == /\ \A a \in AssetsOf(tx) \ {BTM} : T.in[a] = T.out[a]
                     /\ LLeq(T.out[BTM], T.in[BTM])
BtmDiffT(T) == IF LLeq(T.out[BTM], T.in[BTM]) THEN LSub(T.in[BTM], T.out[BTM]) ELSE LZero
Conserves(tx) == ConservesT(tx, Totals(tx))
BtmDiff(tx) == BtmDiffT(Totals(tx))

-----------------------------------------------------------------------------
(* 2. The rule set.                                                           *)
SrcAmtT(tx, T, i) == IF IsCb(tx.ins[i]) THEN T.all ELSE tx.ins[i].v

(* checked int64: every amount <= 2^63-1; the running sums of non-negative    *)
(* terms are monotone, so "never overflows" = "the total fits".               *)
MuxSourcesOK(tx, T) == /\ \A i \in Idx(tx.ins) : LLeq(SrcAmtT(tx, T, i), LMaxI64)
                       /\ \A a \in SrcAssets(tx) : LLeq(T.src[a], LMaxI64)
MuxDestsOK(tx) == \A j \in Idx(tx.outs) :
                    /\ tx.outs[j].a \in SrcAssets(tx)               \* a destination needs a source asset
                    /\ LLeq(tx.outs[j].v, LMaxI64)
Parity(T, a) == SSubU(SPos(T.src[a]), T.out[a])                      \* sources - destinations, signed
MuxNoUnderflow(tx, T) == \A a \in SrcAssets(tx) : SFitsI64(Parity(T, a))
MuxBalanced(tx, T) == /\ \A a \in SrcAssets(tx) \ {BTM} : T.src[a] = T.out[a]
                      /\ BTM \in SrcAssets(tx) => LLeq(T.out[BTM], T.src[BTM])
MuxFeeT(tx, T) == IF BTM \in SrcAssets(tx) /\ LLeq(T.out[BTM], T.src[BTM]) THEN LSub(T.src[BTM], T.out[BTM]) ELSE LZero

OutRule(o) == o.k = "vote" => (o.key = "ok" /\ o.a = BTM /\ LLeq(MinVote, o.v))
InRule(tx, i) == LET x == tx.ins[i] IN
                 IF IsCb(x) THEN tx.first /\ i = 1 /\ NCoinbase(tx) = 1
                 ELSE IF x.k = "veto" THEN x.key = "ok" /\ x.prog = "ok"
                 ELSE x.prog = "ok"

Rules(tx, T) == /\ tx.size = "pos" /\ tx.tr # "past"
                /\ Len(tx.outs) >= 1                                 \* a version-1 transaction needs a result
                /\ MuxSourcesOK(tx, T) /\ MuxDestsOK(tx) /\ MuxNoUnderflow(tx, T) /\ MuxBalanced(tx, T)
                /\ \A j \in Idx(tx.outs) : OutRule(tx.outs[j])
                /\ \A i \in Idx(tx.ins) : InRule(tx, i)

(* "yes" | "no" | "gas?"  (gas?: depends on the exact serialized size, not modelled) *)
AcceptT(tx, T) == IF ~Rules(tx, T) THEN "no"
                  ELSE IF ~HasProg(tx) THEN "yes"
                  ELSE IF LLeq(GasSafe, MuxFeeT(tx, T)) THEN "yes"
                  ELSE IF LLt(MuxFeeT(tx, T), GasNone) THEN "no" ELSE "gas?"
Accept(tx) == AcceptT(tx, Totals(tx))

-----------------------------------------------------------------------------
(* Design theorem: whatever the rule set lets through satisfies the property.  *)
SoundT(tx, T) == AcceptT(tx, T) # "no" => (ConservesT(tx, T) /\ MuxFeeT(tx, T) = BtmDiffT(T))
Sound(tx) == SoundT(tx, Totals(tx))

(* What the binding compares: *)
JudgeT(tx, T) ==
  [acc |-> AcceptT(tx, T), cons |-> ConservesT(tx, T), fee |-> BtmDiffT(T), mixed |-> Mixed(tx),
   why |-> IF ConservesT(tx, T) THEN "ok"
           ELSE IF \E a \in AssetsOf(tx) \ {BTM} : T.in[a] # T.out[a] THEN "asset-unbalanced"
           ELSE "btm-out-exceeds-in",
   sound |-> SoundT(tx, T)]
Judge(tx) == JudgeT(tx, Totals(tx))
=============================================================================
