-------------------------- MODULE TxValidateCases --------------------------
(* E: TLC enumerates the abstract case space of TxValidate and exports, for  *)
(* every case, the judgement of the specification.  One state per case.       *)
(*   Family "arith": one asset (BTM itself, or asset A next to a BTM input    *)
(*     that pays the gas), all multisets of <= MaxIn spend amounts against    *)
(*     all multisets of <= MaxOut output amounts over the boundary alphabet.  *)
(*   Family "kinds": all sequences of <= MaxIn inputs of every kind/asset and *)
(*     <= MaxOut outputs of every kind/asset over the amounts {M, 2M (,0)};   *)
(*     plus the vote/veto edge cases.                                         *)
EXTENDS TxValidate, TLC, Json

CONSTANTS Family,      \* "arith" | "kinds"
          MaxIn, MaxOut,
          Full         \* TRUE: larger alphabets (thorough tier)

VARIABLE c

G == LOf(100000000)                       \* 10^8: one vote minimum, pays any gas
L62 == LPow2(62)
Alpha == IF Full
  THEN << LZero, LOf(1), LOf(2), LOf(3), G, LAdd(G, LOf(1)), LAdd(G, G), L62, LSub(LMaxI64, LOf(1)), LMaxI64, L63,
          LAdd(L63, LOf(1)), LMaxU64 >>
  ELSE << LZero, LOf(1), LOf(2), G, L62, LSub(LMaxI64, LOf(1)), LMaxI64, L63, LMaxU64 >>

(* multisets of size n over 1..k as non-decreasing index sequences *)
NDSeqs(n, k) == {s \in [1..n -> 1..k] : \A i \in 1..(n - 1) : s[i] <= s[i + 1]}
NDUpTo(lo, hi, k) == UNION {NDSeqs(n, k) : n \in lo..hi}

MkIn(k, a, v) == [k |-> k, a |-> a, v |-> v, key |-> "ok", prog |-> "ok"]
MkOut(k, a, v) == [k |-> k, a |-> a, v |-> v, key |-> "ok"]
Tx(ins, outs, first) == [ins |-> ins, outs |-> outs, first |-> first, tr |-> "zero", size |-> "pos"]

MkArith(x, si, so) ==
  Tx([i \in 1..Len(si) |-> MkIn("spend", x, Alpha[si[i]])] \o (IF x = BTM THEN <<>> ELSE <<MkIn("spend", BTM, G)>>),
     [j \in 1..Len(so) |-> MkOut("orig", x, Alpha[so[j]])], FALSE)
ArithCases == {MkArith(x, si, so) : x \in {BTM, "A"}, si \in NDUpTo(1, MaxIn, Len(Alpha)), so \in NDUpTo(0, MaxOut, Len(Alpha))}

KAssets == IF Full THEN {BTM, "A", "B"} ELSE {BTM, "A"}
KAmts == IF Full THEN {G, LAdd(G, G), LZero} ELSE {G, LAdd(G, G)}
InOpts == {MkIn(k, a, v) : k \in {"spend", "veto"}, a \in KAssets, v \in KAmts}
            \cup {MkIn("issue", a, v) : a \in KAssets \ {BTM}, v \in KAmts}
            \cup {MkIn("coinbase", BTM, LZero)}
OutOpts == {MkOut(k, a, v) : k \in {"orig", "vote", "retire"}, a \in KAssets, v \in KAmts}
SeqsUpTo(lo, hi, S) == UNION {[1..n -> S] : n \in lo..hi}
HasCb(ins) == \E i \in 1..Len(ins) : ins[i].k = "coinbase"
KindCases == {Tx(ins, outs, f) : ins \in SeqsUpTo(1, MaxIn, InOpts), outs \in SeqsUpTo(0, MaxOut, OutOpts), f \in BOOLEAN}
EdgeCases ==
  {Tx(<<MkIn("spend", BTM, LAdd(LAdd(G, G), G))>> \o (IF a = BTM THEN <<>> ELSE <<MkIn("spend", a, v)>>),
      <<[k |-> "vote", a |-> a, v |-> v, key |-> key]>>, FALSE)
     : a \in {BTM, "A"}, v \in {LSub(G, LOf(1)), G, LZero}, key \in {"ok", "short"}}
  \cup {Tx(<<[k |-> "veto", a |-> BTM, v |-> LAdd(G, G), key |-> key, prog |-> p]>>, <<MkOut("orig", BTM, G)>>, FALSE)
          : key \in {"ok", "short"}, p \in {"ok", "fail"}}
  \cup {[Tx(<<MkIn("spend", BTM, LAdd(G, G))>>, <<MkOut("orig", BTM, G)>>, FALSE) EXCEPT !.tr = t, !.size = s]
          : t \in {"zero", "ok", "past"}, s \in {"pos", "zero"}}

Cases == IF Family = "arith" THEN ArithCases
         ELSE {t \in KindCases : t.first => HasCb(t.ins)} \cup EdgeCases

Init == /\ c \in Cases
        /\ PrintT("EXPORT " \o ToJson([id |-> 0, tx |-> c, exp |-> Judge(c)]))
Next == UNCHANGED c
DesignOK == Sound(c)
=============================================================================
