-------------------------- MODULE TxValidateCases --------------------------
(* E: TLC enumerates the abstract case space of TxValidate and exports, for  *)
(* every case, the judgement of the specification.  One state per case.       *)
(* T: abstract transactions produced on the Go side (random, boundary-biased, *)
(* wrapped sums, mutated; up to 13 entries; amounts near 2^63 / 2^64 as       *)
(* limbs) are read from cases.ndjson and judged by the same operators in the  *)
(* same run.                                                                  *)
(*   Family "arith": one asset (BTM itself, or asset A next to a BTM input    *)
(*     that pays the gas), all multisets of <= MaxIn spend amounts against    *)
(*     all multisets of <= MaxOut output amounts over the boundary alphabet.  *)
(*   Family "kinds": all sequences of <= MaxIn inputs of every kind/asset and *)
(*     <= MaxOut outputs (multisets in the quick tier, sequences otherwise)   *)
(*     of every kind/asset over the amounts {G, 2G}; plus the vote / veto /   *)
(*     time-range / size edge cases.                                          *)
EXTENDS TxValidate, TLC, Json, SequencesExt

CONSTANTS Family,      \* "arith" | "kinds" | "all"
          AMaxIn, AMaxOut,   \* family "arith": sizes of the amount multisets
          AMaxSum,           \*                 and of both together
          KMaxIn, KMaxOut,   \* family "kinds": numbers of inputs / outputs
          Full         \* TRUE: larger alphabets (thorough tier)

VARIABLE c

G == LOf(100000000)                       \* 10^8: one vote minimum, pays any gas
L62 == LPow2(62)
Alpha == IF Full
  THEN << LZero, LOf(1), LOf(2), LOf(3), G, LAdd(G, LOf(1)), LAdd(G, G), L62, LSub(LMaxI64, LOf(1)), LMaxI64, L63,
          LAdd(L63, LOf(1)), LMaxU64 >>
  ELSE << LZero, LOf(1), LOf(2), G, L62, LSub(LMaxI64, LOf(1)), LMaxI64, L63, LMaxU64 >>

(* multisets of size n over 1..k as non-decreasing index sequences *)
NDSeqs(n, k) == {s \in [1..n -> 1..k] : \A i \in 1..(n - 1) : s[i] <= s[i + 1]}
NDUpTo(lo, hi, k) == UNION {NDSeqs(n, k) : n \in lo..hi}

MkIn(k, a, v) == [k |-> k, a |-> a, v |-> v, key |-> "ok", prog |-> "ok"]
MkOut(k, a, v) == [k |-> k, a |-> a, v |-> v, key |-> "ok"]
Tx(ins, outs, first) == [ins |-> ins, outs |-> outs, first |-> first, tr |-> "zero", size |-> "pos"]

MkArith(x, si, so) ==
  Tx([i \in 1..Len(si) |-> MkIn("spend", x, Alpha[si[i]])] \o (IF x = BTM THEN <<>> ELSE <<MkIn("spend", BTM, G)>>),
     [j \in 1..Len(so) |-> MkOut("orig", x, Alpha[so[j]])], FALSE)

KAssets == IF Full THEN {BTM, "A", "B"} ELSE {BTM, "A"}
KAmts == {G, LAdd(G, G)}
InOpts == {MkIn(k, a, v) : k \in {"spend", "veto"}, a \in KAssets, v \in KAmts}
            \cup {MkIn("issue", a, v) : a \in KAssets \ {BTM}, v \in KAmts}
            \cup {MkIn("coinbase", BTM, LZero)}
OutOpts == {MkOut(k, a, v) : k \in {"orig", "vote", "retire"}, a \in KAssets, v \in KAmts}
SeqsUpTo(lo, hi, S) == UNION {[1..n -> S] : n \in lo..hi}
HasCb(ins) == \E i \in 1..Len(ins) : ins[i].k = "coinbase"
OutSeqQ == SetToSeq(OutOpts)
OutChoices == IF Full THEN SeqsUpTo(0, KMaxOut, OutOpts)            \* every order
              ELSE {[j \in 1..Len(s) |-> OutSeqQ[s[j]]] : s \in NDUpTo(0, KMaxOut, Len(OutSeqQ))}   \* multisets
EdgeCases ==
  {Tx(<<MkIn("spend", BTM, LAdd(LAdd(G, G), G))>> \o (IF a = BTM THEN <<>> ELSE <<MkIn("spend", a, v)>>),
      <<[k |-> "vote", a |-> a, v |-> v, key |-> key]>>, FALSE)
     : a \in {BTM, "A"}, v \in {LSub(G, LOf(1)), G, LZero}, key \in {"ok", "short"}}
  \cup {Tx(<<[k |-> "veto", a |-> BTM, v |-> LAdd(G, G), key |-> key, prog |-> p]>>, <<MkOut("orig", BTM, G)>>, FALSE)
          : key \in {"ok", "short"}, p \in {"ok", "fail"}}
  \cup {[Tx(<<MkIn("spend", BTM, LAdd(G, G))>>, <<MkOut("orig", BTM, G)>>, FALSE) EXCEPT !.tr = t, !.size = s]
          : t \in {"zero", "ok", "past"}, s \in {"pos", "zero"}}

FileCases == ndJsonDeserialize("cases.ndjson")      \* records [id, tx]
WellFormed(t) == /\ \A i \in Idx(t.ins) : IsLimbs(t.ins[i].v) /\ LLeq(t.ins[i].v, LMaxU64)
                 /\ \A j \in Idx(t.outs) : IsLimbs(t.outs[j].v) /\ LLeq(t.outs[j].v, LMaxU64)
ASSUME \A n \in 1..Len(FileCases) : WellFormed(FileCases[n].tx)

(* One initial state per SEED (a partial case); its successors complete the seed in  *)
(* every way.  The workers therefore build and judge the cases in parallel and no     *)
(* large set of case records is ever materialised.                                    *)
NChunk == 64
Seeds ==
  (IF Family \in {"arith", "all"}
     THEN {[fam |-> "arith", x |-> x, si |-> si] : x \in {BTM, "A"}, si \in NDUpTo(1, AMaxIn, Len(Alpha))} ELSE {})
  \cup (IF Family \in {"kinds", "all"}
     THEN {[fam |-> "kinds", ins |-> ins, first |-> f] : ins \in SeqsUpTo(1, KMaxIn, InOpts), f \in BOOLEAN} \cup {[fam |-> "edge"]}
     ELSE {})
  \cup {[fam |-> "file", k |-> k] : k \in 0..(NChunk - 1)}

Emit(id, src, tx) == \E j \in {Judge(tx)} :            \* bound by a quantifier: evaluated once
                       /\ c' = [lvl |-> 1, seed |-> c.seed, tx |-> tx, sound |-> j.sound]
                       /\ PrintT("EXPORT " \o ToJson([id |-> id, src |-> src, tx |-> tx, exp |-> j]))

Init == c \in {[lvl |-> 0, seed |-> s] : s \in Seeds}
Next == /\ c.lvl = 0
        /\ LET s == c.seed IN
           CASE s.fam = "arith" -> \E so \in NDUpTo(0, IF AMaxOut < AMaxSum - Len(s.si) THEN AMaxOut ELSE AMaxSum - Len(s.si), Len(Alpha)) :
                                      Emit(0, "enum", MkArith(s.x, s.si, so))
             [] s.fam = "kinds" -> /\ s.first => HasCb(s.ins)
                                   /\ \E outs \in OutChoices : Emit(0, "enum", Tx(s.ins, outs, s.first))
             [] s.fam = "edge"  -> \E t \in EdgeCases : Emit(0, "enum", t)
             [] s.fam = "file"  -> \E n \in {x \in 1..Len(FileCases) : x % NChunk = s.k} :
                                      Emit(FileCases[n].id, "file", FileCases[n].tx)
DesignOK == c.lvl = 1 => c.sound
=============================================================================
