-------------------------- MODULE TxValidateJudge --------------------------
(* T: abstract transactions produced on the Go side (random, boundary-biased, *)
(* mutated, up to 12 entries, amounts near 2^63 / 2^64 as limbs) are read     *)
(* from cases.ndjson and judged by the same operators of TxValidate.          *)
EXTENDS TxValidate, TLC, Json
VARIABLE c
Cases == ndJsonDeserialize("cases.ndjson")
WellFormed(t) == /\ \A i \in Idx(t.ins) : IsLimbs(t.ins[i].v) /\ LLeq(t.ins[i].v, LMaxU64)
                 /\ \A j \in Idx(t.outs) : IsLimbs(t.outs[j].v) /\ LLeq(t.outs[j].v, LMaxU64)
Init == /\ c \in 1..Len(Cases)
        /\ Assert(WellFormed(Cases[c].tx), <<"malformed case", c>>)
        /\ PrintT("EXPORT " \o ToJson([id |-> Cases[c].id, tx |-> Cases[c].tx, exp |-> Judge(Cases[c].tx)]))
Next == UNCHANGED c
DesignOK == Sound(Cases[c].tx)
=============================================================================
