----------------------------- MODULE Validators -----------------------------
(* C15 -- validator set and block-proposer schedule (protocol/state/checkpoint.go). *)
(*                                                                                  *)
(* A checkpoint carries the vote tally of its branch.  Every block applies its      *)
(* transactions in order: a veto input subtracts from the key's tally (removing     *)
(* the key when the veto is at least the tally), a vote output adds to it.  When    *)
(* the checkpoint has completed its epoch, the effective validators of the next     *)
(* epoch are the at most MaxValidators keys whose tally reaches MinVotes, ranked    *)
(* by (votes descending, key descending) with orders 0..n-1; with no qualifying     *)
(* key (or while the checkpoint is still growing) the federation keys in list       *)
(* order.  The proposer of time ts >= start is the validator whose order is         *)
(* ((ts - start) \div Interval) % n.                                                *)
(*                                                                                  *)
(* Keys are integers: a larger integer is the larger public key (hex string order). *)
(* Federation members are the negative integers -1, -2, ... (-i = i-th list entry). *)
(* Amounts are small integers around MinVotes; the driver concretises an amount a   *)
(* as  round(a / MinVotes) * realMin + (a - round(a/MinVotes) * MinVotes), which is *)
(* additive and order preserving as long as the small parts stay below MinVotes/2.  *)
EXTENDS Integers, Sequences, FiniteSets, TLC

CONSTANTS NKeys,          \* candidate keys are 1..NKeys
          MinVotes,       \* consensus.ActiveNetParams.MinValidatorVoteNum (model value)
          MaxValidators,  \* consensus.MaxNumOfValidators
          NFed,           \* number of federation keys
          Interval,       \* consensus.ActiveNetParams.BlockTimeInterval
          Epoch,          \* consensus.ActiveNetParams.BlocksOfEpoch
          Amounts,        \* amounts a vote output / veto input may carry
          MaxEvents,      \* bound on the history length
          Rounds          \* rotation rounds whose slots are exported

Keys == 1..NKeys

-----------------------------------------------------------------------------
(* Pure operators: the reference results. *)

Apply(t, e) ==
  IF e.kind = "vote" THEN [t EXCEPT ![e.key] = @ + e.amt]
  ELSE [t EXCEPT ![e.key] = IF @ > e.amt THEN @ - e.amt ELSE 0]

RECURSIVE TallyOf(_, _)
TallyOf(t, h) == IF h = <<>> THEN t ELSE TallyOf(Apply(t, Head(h)), Tail(h))

Qualified(t) == {k \in DOMAIN t : t[k] >= MinVotes}
(* strict total order on keys of one tally: votes descending, then key descending *)
Before(t, a, b) == t[a] > t[b] \/ (t[a] = t[b] /\ a > b)
RankOf(t, k) == Cardinality({j \in Qualified(t) : Before(t, j, k)})
Ranked(t) == LET q == Qualified(t) IN [i \in 1..Cardinality(q) |-> CHOOSE k \in q : RankOf(t, k) = i - 1]

(* AllValidators of a completed checkpoint *)
AllOf(t) == LET r == Ranked(t) IN [i \in 1..Len(r) |-> [key |-> r[i], votes |-> t[r[i]]]]
FederationSet == [i \in 1..NFed |-> [key |-> 0 - i, votes |-> 0, order |-> i - 1]]
Min(a, b) == IF a < b THEN a ELSE b
(* EffectiveValidators of a completed checkpoint *)
EffectiveOf(t) ==
  IF Qualified(t) = {} THEN FederationSet
  ELSE LET r == Ranked(t) IN
       [i \in 1..Min(Len(r), MaxValidators) |-> [key |-> r[i], votes |-> t[r[i]], order |-> i - 1]]

(* owner of the slot containing start + dt *)
SlotOf(n, dt) == (dt \div Interval) % n
Owners(eff, dt) == {i \in 1..Len(eff) : eff[i].order = SlotOf(Len(eff), dt)}
SlotOwner(eff, dt) == eff[CHOOSE i \in Owners(eff, dt) : TRUE]

(* the times (relative to the epoch start) whose owner is exported / compared: *)
(* both edges and the second millisecond of every slot of Rounds rotation rounds *)
Dts(n) == [i \in 1..(Rounds * n * 3) |->
             LET j == (i - 1) \div 3   o == (i - 1) % 3 IN
             j * Interval + (CASE o = 0 -> 0 [] o = 1 -> 1 [] OTHER -> Interval - 1)]
Schedule(eff) == LET d == Dts(Len(eff)) IN
                 [i \in 1..Len(d) |-> LET o == SlotOwner(eff, d[i]) IN [dt |-> d[i], key |-> o.key, order |-> o.order]]

(* properties of the reference itself (checked by TLC on every reachable tally) *)
EffOk(eff) ==
  /\ Len(eff) >= 1 /\ Len(eff) <= (IF NFed > MaxValidators THEN NFed ELSE MaxValidators)
  /\ {eff[i].order : i \in 1..Len(eff)} = 0..(Len(eff) - 1)
  /\ \A i, j \in 1..Len(eff) : i # j => eff[i].key # eff[j].key /\ eff[i].order # eff[j].order
  /\ LET d == Dts(Len(eff)) IN \A i \in 1..Len(d) : Cardinality(Owners(eff, d[i])) = 1
RankOk(t) ==
  /\ LET r == Ranked(t) IN
     /\ \A i, j \in 1..Len(r) : i < j => Before(t, r[i], r[j])
     /\ {r[i] : i \in 1..Len(r)} = Qualified(t)
  /\ Qualified(t) # {} =>
       LET e == EffectiveOf(t) IN
       \A i \in 1..Len(e) : \A k \in Qualified(t) :
          (\A j \in 1..Len(e) : e[j].key # k) => Before(t, e[i].key, k)

-----------------------------------------------------------------------------
(* State machine: one block per event (Checkpoint.Increase), epochs of Epoch blocks. *)
VARIABLES tally, height, last

vars == <<tally, height, last>>

Events == [kind : {"vote", "veto"}, key : Keys, amt : Amounts]

Init == /\ tally = [k \in Keys |-> 0]
        /\ height = 0
        /\ last = [kind |-> "init", key |-> 0, amt |-> 0]

Block(e) == /\ height < MaxEvents
            /\ tally' = Apply(tally, e)
            /\ height' = height + 1
            /\ last' = e

Next == \E e \in Events : Block(e)
Spec == Init /\ [][Next]_vars

Done == height > 0 /\ height % Epoch = 0
AllNow == IF Done THEN AllOf(tally) ELSE <<>>
EffNow == IF Done THEN EffectiveOf(tally) ELSE FederationSet

TypeOK == /\ \A k \in Keys : tally[k] >= 0
          /\ height \in 0..MaxEvents
Sound == RankOk(tally) /\ EffOk(EffectiveOf(tally)) /\ EffOk(EffNow)
View == <<tally, height>>
=============================================================================
