--------------------------- MODULE ValidatorsGen ---------------------------
(* Export of every transition of Validators with one path reaching it and the   *)
(* expected observable results (for replay against state.Checkpoint).           *)
EXTENDS Validators, Json

VARIABLE hist
GInit == Init /\ hist = <<>>
GNext == Next /\ hist' = Append(hist, last')
Obs == LET ed == EffectiveOf(tally) IN
       [tally |-> tally, height |-> height, done |-> Done,
        allNow |-> AllNow, effNow |-> EffNow, schedNow |-> Schedule(EffNow),
        allDone |-> AllOf(tally), effDone |-> ed, schedDone |-> Schedule(ed),
        min |-> MinVotes, interval |-> Interval, epoch |-> Epoch, nfed |-> NFed, nkeys |-> NKeys]
Export == PrintT("EXPORT " \o ToJson([calls |-> hist', obs |-> Obs']))
GView == View
=============================================================================
