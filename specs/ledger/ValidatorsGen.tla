--------------------------- MODULE ValidatorsGen ---------------------------
(* Export of every transition of Validators with one path reaching it and the   *)
(* expected observable results (for replay against state.Checkpoint).           *)
EXTENDS Validators, Json

VARIABLE hist
GInit == Init /\ hist = <<>>
GNext == Next /\ hist' = Append(hist, last')
Obs == LET ed == EffectiveOf(tally) IN
       [tally |-> tally, height |-> height, done |-> Done,
        allNow |-> AllNow, effNow |-> EffNow, schedNow |-> Schedule(EffNow),
        allDone |-> AllOf(tally), effDone |-> ed, schedDone |-> Schedule(ed),
        min |-> MinVotes, interval |-> Interval, epoch |-> Epoch, nfed |-> NFed, nkeys |-> NKeys]
(* State constraint (always TRUE): TLC evaluates it on every generated successor state,  *)
(* i.e. once per explored transition, in an unprimed context (where TLC caches LET and   *)
(* operator-argument values; the primed ACTION_CONSTRAINT form is ~20x slower here).     *)
Export == PrintT("EXPORT " \o ToJson([calls |-> hist, obs |-> Obs]))
GView == View
=============================================================================
