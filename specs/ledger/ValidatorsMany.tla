--------------------------- MODULE ValidatorsMany ---------------------------
(* C15, more candidates than seats: a case table (one TLC state per case) over    *)
(* 11..16 keys with equal, distinct, pairwise-tied, partly unqualified and        *)
(* arithmetic-pattern tallies.  TLC evaluates the reference operators of          *)
(* Validators on every case and exports the expected results.                     *)
EXTENDS Validators, Json

CONSTANTS NMin, NMax      \* numbers of candidate keys

Pat(n) ==
  {[k \in 1..n |-> MinVotes]} \cup
  {[k \in 1..n |-> MinVotes + k]} \cup
  {[k \in 1..n |-> MinVotes + (n - k)]} \cup
  {[k \in 1..n |-> MinVotes + (k \div 2)]} \cup
  {[k \in 1..n |-> IF k <= c THEN MinVotes ELSE MinVotes - 1] : c \in {0, 1, 9, 10, 11}} \cup
  {[k \in 1..n |-> IF k > n - c THEN MinVotes ELSE MinVotes - 1] : c \in {9, 10, 11}} \cup
  {[k \in 1..n |-> 2 * MinVotes - (k % 2)]} \cup
  {[k \in 1..n |-> MinVotes - 1 + ((k * a + b) % m)] : a \in {1, 3, 5, 7}, b \in 0..3, m \in {2, 3, 5}}

Cases == UNION {Pat(n) : n \in NMin..NMax}

MInit == /\ tally \in Cases
         /\ height = Epoch
         /\ last = [kind |-> "case", key |-> 0, amt |-> 0]
MNext == FALSE /\ UNCHANGED vars
MSound == RankOk(tally) /\ EffOk(EffectiveOf(tally)) /\ Len(EffectiveOf(tally)) <= MaxValidators
MObs == LET ed == EffectiveOf(tally) IN
        [tally |-> tally, height |-> height, done |-> TRUE,
         allDone |-> AllOf(tally), effDone |-> ed, schedDone |-> Schedule(ed),
         min |-> MinVotes, interval |-> Interval, epoch |-> Epoch, nfed |-> NFed, nkeys |-> Len(tally)]
MExport == PrintT("EXPORT " \o ToJson([calls |-> <<>>, obs |-> MObs]))
=============================================================================
