------------------------------- MODULE VMNat -------------------------------
(* Natural numbers of arbitrary size as little-endian sequences of base-256   *)
(* digits without trailing zero digits ("trimmed"; zero is <<>>).  This is     *)
(* also the number encoding of the Bytom VM, so a VM number IS its digit      *)
(* sequence.  TLC integers are 32-bit: every intermediate value here stays    *)
(* below 2^31 (digit products < 2^16, column sums of <= 64 products < 2^23).  *)
(* Pure TLA+ (no Java overrides).                                             *)
EXTENDS Integers, Sequences

NDg(a, i) == IF i >= 1 /\ i <= Len(a) THEN a[i] ELSE 0

RECURSIVE NTrim(_)
NTrim(a) == IF a = <<>> THEN a
            ELSE IF a[Len(a)] = 0 THEN NTrim(SubSeq(a, 1, Len(a) - 1)) ELSE a

NZero == <<>>
NIsZero(a) == a = <<>>

RECURSIVE NFromInt(_)
NFromInt(n) == IF n = 0 THEN <<>> ELSE <<n % 256>> \o NFromInt(n \div 256)

(* value of a trimmed number of at most 3 digits (< 2^24) *)
NSmall(a) == Len(a) <= 3
NToInt(a) == NDg(a, 1) + 256 * NDg(a, 2) + 65536 * NDg(a, 3)
(* value of a trimmed number below 2^31 (4 digits, top digit < 128) *)
NToInt4(a) == NDg(a, 1) + 256 * NDg(a, 2) + 65536 * NDg(a, 3) + 16777216 * NDg(a, 4)

RECURSIVE NCmpAt(_, _, _)
NCmpAt(a, b, i) == IF i = 0 THEN 0
                   ELSE IF a[i] < b[i] THEN -1
                   ELSE IF a[i] > b[i] THEN 1 ELSE NCmpAt(a, b, i - 1)
(* -1 / 0 / 1 ; both arguments trimmed *)
NCmp(a, b) == IF Len(a) < Len(b) THEN -1
              ELSE IF Len(a) > Len(b) THEN 1 ELSE NCmpAt(a, b, Len(a))
NLt(a, b) == NCmp(a, b) < 0
NLe(a, b) == NCmp(a, b) <= 0

RECURSIVE NAddC(_, _, _, _, _, _)
NAddC(a, b, i, n, c, acc) ==
  IF i > n THEN (IF c = 0 THEN acc ELSE Append(acc, c))
  ELSE LET s == NDg(a, i) + NDg(b, i) + c
       IN NAddC(a, b, i + 1, n, s \div 256, Append(acc, s % 256))
NAdd(a, b) == NAddC(a, b, 1, IF Len(a) > Len(b) THEN Len(a) ELSE Len(b), 0, <<>>)

RECURSIVE NSubC(_, _, _, _, _)
NSubC(a, b, i, br, acc) ==
  IF i > Len(a) THEN acc
  ELSE LET d == a[i] - NDg(b, i) - br
       IN IF d < 0 THEN NSubC(a, b, i + 1, 1, Append(acc, d + 256))
                   ELSE NSubC(a, b, i + 1, 0, Append(acc, d))
(* a - b, requires b <= a *)
NSub(a, b) == NTrim(NSubC(a, b, 1, 0, <<>>))

RECURSIVE NMulSmallC(_, _, _, _, _)
NMulSmallC(a, d, i, c, acc) ==
  IF i > Len(a) THEN (IF c = 0 THEN acc ELSE NMulSmallC(a, d, i, c \div 256, Append(acc, c % 256)))
  ELSE LET s == a[i] * d + c
       IN NMulSmallC(a, d, i + 1, s \div 256, Append(acc, s % 256))
(* a * d for a small factor 0 <= d < 2^16 *)
NMulSmall(a, d) == IF d = 0 THEN <<>> ELSE NMulSmallC(a, d, 1, 0, <<>>)

(* column sum of the schoolbook product: digits i of a and k+1-i of b *)
RECURSIVE NCol(_, _, _, _, _)
NCol(a, b, k, i, acc) ==
  IF i > Len(a) \/ i > k THEN acc
  ELSE NCol(a, b, k, i + 1, acc + a[i] * NDg(b, k + 1 - i))
RECURSIVE NMulC(_, _, _, _, _)
NMulC(a, b, k, c, acc) ==
  IF k > Len(a) + Len(b) THEN acc
  ELSE LET lo == IF k - Len(b) + 1 > 1 THEN k - Len(b) + 1 ELSE 1
           s  == NCol(a, b, k, lo, 0) + c
       IN NMulC(a, b, k + 1, s \div 256, Append(acc, s % 256))
NMul(a, b) == IF a = <<>> \/ b = <<>> THEN <<>> ELSE NTrim(NMulC(a, b, 1, 0, <<>>))

(* largest digit d in lo..hi with d*b <= r *)
RECURSIVE NQDigit(_, _, _, _)
NQDigit(r, b, lo, hi) ==
  IF lo = hi THEN lo
  ELSE LET mid == (lo + hi + 1) \div 2
       IN IF NLe(NMulSmall(b, mid), r) THEN NQDigit(r, b, mid, hi) ELSE NQDigit(r, b, lo, mid - 1)
RECURSIVE NDivLoop(_, _, _, _, _)
NDivLoop(a, b, i, r, q) ==   \* q collects quotient digits, most significant first
  IF i = 0 THEN [q |-> q, r |-> r]
  ELSE LET r1 == NTrim(<<a[i]>> \o r)
           d  == NQDigit(r1, b, 0, 255)
       IN NDivLoop(a, b, i - 1, NSub(r1, NMulSmall(b, d)), <<d>> \o q)
(* [q, r] with a = q*b + r, 0 <= r < b; requires b # 0 *)
NDivMod(a, b) == LET x == NDivLoop(a, b, Len(a), <<>>, <<>>) IN [q |-> NTrim(x.q), r |-> x.r]

NPow2Small(k) == CASE k = 0 -> 1 [] k = 1 -> 2 [] k = 2 -> 4 [] k = 3 -> 8
                   [] k = 4 -> 16 [] k = 5 -> 32 [] k = 6 -> 64 [] k = 7 -> 128 [] k = 8 -> 256
NZeros(n) == [i \in 1..n |-> 0]
(* a * 2^k *)
NShl(a, k) == IF a = <<>> THEN <<>> ELSE NZeros(k \div 8) \o NMulSmall(a, NPow2Small(k % 8))
(* floor(a / 2^k) *)
NShr(a, k) ==
  LET q == k \div 8  r == k % 8  p == NPow2Small(r)  hi == NPow2Small(8 - r)
      b == IF q >= Len(a) THEN <<>> ELSE SubSeq(a, q + 1, Len(a))
  IN NTrim([i \in 1..Len(b) |-> (b[i] \div p) + (NDg(b, i + 1) % p) * hi])
(* a mod 256^n *)
NLowBytes(a, n) == IF Len(a) <= n THEN a ELSE NTrim(SubSeq(a, 1, n))
(* a < 2^bits, for bits a multiple of 8 minus one or a multiple of 8 *)
NFitsBits(a, bits) ==
  LET full == bits \div 8  rem == bits % 8
  IN \/ Len(a) <= full
     \/ (rem > 0 /\ Len(a) = full + 1 /\ a[full + 1] < NPow2Small(rem))
=============================================================================
