---------------------------- MODULE VMNatCheck ----------------------------
(* Design check of the arbitrary-precision arithmetic in VMNat (pure TLA+):  *)
(* on small values every operation must agree with TLC's own integers; on    *)
(* 64..256-bit values the ring / division / shift identities must hold.      *)
EXTENDS VMNat, TLC
CONSTANT Quick      \* TRUE: smaller value sets

SmallAll == (0..20) \cup {127, 128, 255, 256, 257, 511, 512, 4095, 4096, 46340, 65535, 65536, 65537, 1000003, 16777215, 16777216}
R(b, n) == [i \in 1..n |-> b]
Small == IF Quick THEN (0..3) \cup {127, 255, 256, 257, 4096, 46340, 65535, 65536, 1000003, 16777216} ELSE SmallAll
BigAll == { <<>>, <<1>>, <<255>>, <<0, 1>>,
         R(255, 7) \o <<127>>, R(0, 7) \o <<128>>, R(255, 8), R(0, 8) \o <<1>>, <<1>> \o R(0, 7) \o <<1>>,
         R(0, 16) \o <<1>>, R(255, 15) \o <<127>>, <<57, 48, 171, 84, 169, 140, 235, 31, 10, 210>>,
         R(0, 31) \o <<64>>, <<1>> \o R(0, 30) \o <<64>>, R(255, 31) \o <<127>>, R(0, 31) \o <<128>>, R(255, 32) }
Big == IF Quick THEN { <<>>, <<255>>, R(255, 7) \o <<127>>, R(0, 8) \o <<1>>, <<57, 48, 171, 84, 169, 140, 235, 31, 10, 210>>,
                        <<1>> \o R(0, 30) \o <<64>>, R(255, 31) \o <<127>>, R(255, 32) }
       ELSE BigAll
Pow2(k) == IF k = 0 THEN 1 ELSE IF k <= 8 THEN NPow2Small(k) ELSE 256 * (IF k - 8 <= 8 THEN NPow2Small(k - 8) ELSE 256 * NPow2Small(k - 16))

VARIABLES mode, a, b
Init == \/ mode = "small" /\ a \in Small /\ b \in Small
        \/ mode = "big" /\ a \in Big /\ b \in Big
Next == UNCHANGED <<mode, a, b>>

SmallOK ==
  mode = "small" =>
  LET A == NFromInt(a)  B == NFromInt(b) IN
  /\ NToInt4(A) = a /\ NTrim(A) = A
  /\ NToInt4(NAdd(A, B)) = a + b
  /\ (a >= b => NToInt4(NSub(A, B)) = a - b)
  /\ ((a <= 46340 /\ b <= 46340) => NToInt4(NMul(A, B)) = a * b)
  /\ (b > 0 => NToInt4(NDivMod(A, B).q) = a \div b /\ NToInt4(NDivMod(A, B).r) = a % b)
  /\ NCmp(A, B) = (IF a < b THEN -1 ELSE IF a > b THEN 1 ELSE 0)
  /\ (b <= 20 => NToInt4(NShr(A, b)) = a \div Pow2(b))
  /\ ((b <= 6 /\ a < 16777216) => NToInt4(NShl(A, b)) = a * Pow2(b))
  /\ ((b <= 255 /\ a <= 4000000) => NToInt4(NMulSmall(A, b)) = a * b)
  /\ NFitsBits(A, 8) = (a < 256) /\ NFitsBits(A, 15) = (a < 32768)

BigOK ==
  mode = "big" =>
  /\ NSub(NAdd(a, b), b) = a
  /\ NAdd(a, b) = NAdd(b, a) /\ NMul(a, b) = NMul(b, a)
  /\ (b # <<>> => LET d == NDivMod(a, b) IN NAdd(NMul(d.q, b), d.r) = a /\ NLt(d.r, b))
  /\ (b # <<>> => NDivMod(NMul(a, b), b) = [q |-> a, r |-> <<>>])
  /\ \A k \in {0, 1, 7, 8, 9, 63, 64, 200, 255} : NShr(NShl(a, k), k) = a /\ NShl(a, k) = NMul(a, NShl(<<1>>, k))
  /\ NMul(a, <<0, 1>>) = NShl(a, 8)
  /\ (NLt(a, b) \/ NLt(b, a) \/ a = b) /\ ~(NLt(a, b) /\ NLt(b, a))
  /\ NFitsBits(a, 255) = NLt(a, R(0, 31) \o <<128>>)
  /\ NFitsBits(a, 63) = NLt(a, R(0, 7) \o <<128>>)
  /\ NFitsBits(a, 64) = NLt(a, R(0, 8) \o <<1>>)
=============================================================================
