------------------------------- MODULE Authn -------------------------------
(* Specification of RPC access control (net/http/authn/authn.go over          *)
(* accesstoken.CredentialStore) -- property C36.                              *)
(*                                                                            *)
(* Credentials are modelled as sequences of atoms (abstract characters): an   *)
(* id is a sequence of id atoms, the secret handed out by the k-th Create is  *)
(* a sequence of two fresh atoms.  A request carries either no credentials    *)
(* or a pair (u, p) of atom sequences; equality of pairs in the model is      *)
(* equality of the real (user, password) strings (the replay driver maps      *)
(* every atom to a unique string, the secret atoms to the two halves of the   *)
(* real secret returned by Create).                                           *)
(*                                                                            *)
(* Time: `now` is measured in half windows. A Wait step is longer than the    *)
(* documented 5 minute cache window (2 units); a Half step is longer than     *)
(* half of it and shorter than the whole (1 unit: one Half after an event is  *)
(* still inside the window, two are outside); everything else happens "at     *)
(* once". Configurations use either Wait steps or Half steps (Halves).        *)
EXTENDS Integers, Sequences, FiniteSets, TLC

CONSTANTS IdSet,      \* ids that may be created: a set of atom sequences
          UnknownId,  \* an id that is never created
          MaxCreate,  \* bound on Create calls (= number of distinct secrets)
          MaxWait,    \* bound on elapsed time, in whole windows
          Halves,     \* TRUE: time advances in Half steps, FALSE: in Wait steps
          Origins,    \* subset of {"lo4","lo6","ext4","ext6"}
          Paths,      \* subset of {"api","backup","restore","tokens"}
          MaxTried,   \* bound on the ghost set `tried`
          MaxUsed     \* bound on the ghost set `used`

VARIABLES toks,    \* Seq([id, live, del]) one entry per Create call, in order
          now,     \* elapsed time in half windows
          authed,  \* set of [u, p, at]: pairs presented while they were a live token's pair
          tried,   \* ghost: refused pairs presented earlier (makes the exploration repeat / vary
                   \* requests after a refused one: the implementation has a cache the rule ignores)
          used,    \* ghost: times at which a deleted token's pair was presented inside its window (the
                   \* implementation's cache entry has a time stamp the rule ignores: using the pair must not
                   \* extend the window, so the exploration continues after such a request)
          last     \* the last call with what the specification allows as its outcome

vars == <<toks, now, authed, tried, used, last>>

Local(o) == o \in {"lo4", "lo6"}
LocalOnly(path) == path \in {"backup", "restore", "tokens"}

Secret(k) == << "s" \o ToString(k) \o "x", "s" \o ToString(k) \o "y" >>
Pair(k) == [u |-> toks[k].id, p |-> Secret(k)]
Cat(c) == c.u \o c.p
Splits(s) == {[u |-> SubSeq(s, 1, i), p |-> SubSeq(s, i + 1, Len(s))] : i \in 0..Len(s)}
K == 1..Len(toks)

(* The request generator: no credentials, empty credentials, and for every    *)
(* token ever created every re-splitting of id \o secret, every secret under  *)
(* every id, the id with an empty password, an unknown id with the secret.    *)
CredPairs ==
  UNION {Splits(Cat(Pair(k))) : k \in K}
  \cup {[u |-> toks[k].id, p |-> Secret(j)] : k \in K, j \in K}
  \cup {[u |-> toks[k].id, p |-> <<>>] : k \in K}
  \cup {[u |-> UnknownId, p |-> Secret(k)] : k \in K}
  \cup {[u |-> <<>>, p |-> <<>>]}
Creds == {[has |-> TRUE, u |-> c.u, p |-> c.p] : c \in CredPairs}
         \cup {[has |-> FALSE, u |-> <<>>, p |-> <<>>]}

IsPair(c, k) == c.has /\ c.u = toks[k].id /\ c.p = Secret(k)
LiveTok(c) == \E k \in K : toks[k].live /\ IsPair(c, k)
(* the documented cache window: the pair of a token deleted less than the     *)
(* window ago that was presented successfully while the token was live        *)
InWindow(t) == now - t < 2
Grace(c) == \E k \in K : /\ ~toks[k].live /\ IsPair(c, k) /\ InWindow(toks[k].del)
                         /\ \E a \in authed : a.u = c.u /\ a.p = c.p

(* What the property allows for a request. *)
Allowed(o, path, c) ==
  IF ~Local(o) /\ LocalOnly(path) THEN "refuse"     \* always refused
  ELSE IF LiveTok(c) THEN "admit"                   \* issued, live token: authorised
  ELSE IF Local(o) THEN "any"                       \* the property does not constrain loopback callers
  ELSE IF Grace(c) THEN "any"                       \* may still be admitted from the cache
  ELSE "refuse"

(* Class of the credentials, used only to name violations. *)
Class(c) ==
  IF ~c.has THEN "nocred"
  ELSE IF LiveTok(c) THEN "live"
  ELSE IF Grace(c) THEN "grace"
  ELSE IF \E k \in K : IsPair(c, k) THEN "stale"
  ELSE IF \E k \in K : Cat(c) = Cat(Pair(k)) THEN "resplit"
  ELSE IF c.u = <<>> /\ c.p = <<>> THEN "empty"
  ELSE IF \E k \in K : c.u = toks[k].id THEN "wrongsecret"
  ELSE "unknownid"
(* the concatenation u \o p equals that of a pair authenticated within the current window *)
CatAuthed(c) == c.has /\ \E a \in authed : InWindow(a.at) /\ Cat(a) = Cat(c)

Init == /\ toks = <<>> /\ now = 0 /\ authed = {} /\ tried = {} /\ used = {}
        /\ last = [op |-> "init"]

Create(i) ==
  /\ Len(toks) < MaxCreate
  /\ \A k \in K : toks[k].live => toks[k].id # i
  /\ toks' = Append(toks, [id |-> i, live |-> TRUE, del |-> 0])
  /\ last' = [op |-> "create", id |-> i, k |-> Len(toks) + 1]
  /\ UNCHANGED <<now, authed, tried, used>>

Delete(k) ==
  /\ toks[k].live
  /\ toks' = [toks EXCEPT ![k].live = FALSE, ![k].del = now]
  /\ last' = [op |-> "delete", id |-> toks[k].id, k |-> k]
  /\ UNCHANGED <<now, authed, tried, used>>

Wait ==
  /\ ~Halves /\ now + 2 <= 2 * MaxWait
  /\ now' = now + 2
  /\ last' = [op |-> "wait"]
  /\ UNCHANGED <<toks, authed, tried, used>>

Half ==
  /\ Halves /\ now + 1 <= 2 * MaxWait
  /\ now' = now + 1
  /\ last' = [op |-> "half"]
  /\ UNCHANGED <<toks, authed, tried, used>>

Request(o, path, c) ==
  /\ authed' = IF LiveTok(c) THEN authed \cup {[u |-> c.u, p |-> c.p, at |-> now]} ELSE authed
  /\ tried' = IF c.has /\ ~LiveTok(c) /\ Cardinality(tried) < MaxTried
                THEN tried \cup {[u |-> c.u, p |-> c.p]} ELSE tried
  /\ used' = IF ~Local(o) /\ c.has /\ ~LiveTok(c) /\ Grace(c) /\ Cardinality(used) < MaxUsed THEN used \cup {now} ELSE used
  /\ last' = [op |-> "request", origin |-> o, path |-> path, has |-> c.has, u |-> c.u, p |-> c.p,
              allow |-> Allowed(o, path, c), cls |-> Class(c), catauthed |-> CatAuthed(c)]
  /\ UNCHANGED <<toks, now>>

Next == \/ \E i \in IdSet : Create(i)
        \/ \E k \in K : Delete(k)
        \/ Wait \/ Half
        \/ \E o \in Origins, path \in Paths, c \in Creds : Request(o, path, c)

Spec == Init /\ [][Next]_vars

-----------------------------------------------------------------------------
(* Design properties of the rule itself *)
TypeOK == /\ now \in 0..(2 * MaxWait)
          /\ \A k \in K : toks[k].id \in IdSet
          /\ \A j, k \in K : (j # k /\ toks[j].live /\ toks[k].live) => toks[j].id # toks[k].id

(* "admitted only if the credentials are exactly an issued token's id and secret,  *)
(* live or deleted within the window": whenever a non-loopback request may or must *)
(* be admitted, its pair is exactly the pair of a token that is live or was        *)
(* deleted in the current window.                                                  *)
OnlyIssued ==
  (last.op = "request" /\ ~Local(last.origin) /\ last.allow # "refuse") =>
     /\ ~LocalOnly(last.path)
     /\ last.has
     /\ \E k \in K : /\ last.u = toks[k].id /\ last.p = Secret(k)
                     /\ (toks[k].live \/ InWindow(toks[k].del))
(* a re-splitting of an issued token is never authorised *)
NoResplit == (last.op = "request" /\ ~Local(last.origin) /\ last.cls \in {"resplit", "wrongsecret", "unknownid", "empty", "nocred", "stale"})
                => last.allow = "refuse"
(* secrets are fresh: no two tokens share a concatenation unless they are the same token *)
FreshSecrets == \A j, k \in K : j # k => Cat(Pair(j)) # Cat(Pair(k))

View == <<toks, now, authed, tried, used>>

(* constant values for the configurations (tuples cannot be written in a cfg file) *)
Ids1 == {<<"a", "b">>}
Ids2 == {<<"a", "b">>, <<"a">>}
Ids3 == {<<"a", "b">>, <<"a">>, <<"b">>}
IdZ == <<"z">>
=============================================================================
