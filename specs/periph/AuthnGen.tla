------------------------------ MODULE AuthnGen ------------------------------
(* Export wrapper of Authn: every explored transition is printed with the     *)
(* whole call sequence that reaches it; each request carries the outcome the  *)
(* specification allows ("admit" | "refuse" | "any").                         *)
EXTENDS Authn, Json

VARIABLE hist
HInit == Init /\ hist = <<>>
HNext == Next /\ hist' = Append(hist, last')
HView == View
(* the design properties over `last` are asserted on every generated transition (the VIEW *)
(* hides `last`, so they cannot be plain invariants here)                                *)
Export == /\ Assert(OnlyIssued' /\ NoResplit', "Authn design rule violated")
          /\ PrintT("EXPORT " \o ToJson(hist'))
=============================================================================
