------------------------------ MODULE BanScore ------------------------------
(* Specification of the dynamic ban score (p2p/security/banscore.go and the   *)
(* copy in p2p/trust/banscore.go).                                            *)
(*                                                                            *)
(*   score(t) = persistent + floor( transient(t) )                            *)
(*   transient(t) = transient(last) * 2^(-(t-last)/60)      0 <= t-last       *)
(*   transient(t) = 0                                       t-last > 1800     *)
(*   Increase(p, q) at time t: persistent += p; if q > 0 the transient part   *)
(*   is brought to time t, q is added and last := t.  The result of Increase  *)
(*   and of Int is score(t).                                                  *)
(*                                                                            *)
(* The transient part is a real number.  The specification carries an exact   *)
(* rational enclosure [lo, hi] of it in micro-points (10^-6), using rational  *)
(* enclosures of 2^(-k/60), k < 60, with 8 decimal digits and exact halving   *)
(* for whole minutes; every result is therefore an interval of admitted       *)
(* integers.  A clock that steps backwards (t < last) is outside the rule:    *)
(* any score between the persistent part and the undecayed sum is admitted.   *)
(* TLC integers are 32 bit: all products are split so that they stay below    *)
(* 2^31 for transient parts up to 1000 points.                                *)
EXTENDS Integers, Sequences

S == 1000000            \* micro-points per point
D4 == 10000             \* digit base of the 8-digit fixed point factors
Halflife == 60
Lifetime == 1800

(* FLo[k+1] = floor(10^8 * 2^(-k/60)), k = 0..59 (exact; see the ASSUME below) *)
FLo == <<
  100000000, 98851402, 97715996, 96593632, 95484160, 94387431,
  93303299, 92231619, 91172248, 90125046, 89089871, 88066587,
  87055056, 86055143, 85066716, 84089641, 83123789, 82169031,
  81225239, 80292288, 79370052, 78458409, 77557238, 76666417,
  75785828, 74915353, 74054877, 73204284, 72363461, 71532296,
  70710678, 69898496, 69095643, 68302012, 67517497, 66741992,
  65975395, 65217603, 64468515, 63728031, 62996052, 62272481,
  61557220, 60850175, 60151251, 59460355, 58777395, 58102279,
  57434917, 56775221, 56123102, 55478473, 54841248, 54211343,
  53588673, 52973154, 52364706, 51763246, 51168694, 50580972 >>
FacLo(k) == FLo[k + 1]
FacHi(k) == IF k = 0 THEN FLo[1] ELSE FLo[k + 1] + 1

-----------------------------------------------------------------------------
(* Consistency of the table, checked by TLC when the module is loaded: the     *)
(* enclosures are decreasing and multiplicative ( 2^(-i/60) * 2^(-j/60) =      *)
(* 2^(-(i+j)/60), and = 1/2 for i+j = 60 ).  Products of two 8-digit numbers   *)
(* are computed as four base-10^4 digits.                                      *)
Mul8(v, w) ==
  LET a == v \div D4  b == v % D4  c == w \div D4  d == w % D4
      p0 == b * d                 \* < 10^8
      p1 == a * d + b * c         \* < 2*10^8+
      p2 == a * c                 \* <= 10^8
      d0 == p0 % D4               c0 == p0 \div D4
      s1 == p1 + c0               d1 == s1 % D4   c1 == s1 \div D4
      s2 == p2 + c1               d2 == s2 % D4   d3 == s2 \div D4
  IN <<d3, d2, d1, d0>>
Shift8(v) == <<v \div D4, v % D4, 0, 0>>          \* v * 10^8 as digits
LeqD(x, y) == \/ x = y
              \/ \E i \in 1..4 : x[i] < y[i] /\ \A j \in 1..(i - 1) : x[j] = y[j]
ASSUME \A k \in 0..58 : FacLo(k + 1) < FacLo(k)
ASSUME \A i \in 0..59, j \in 0..59 :
         /\ i + j <= 59 => /\ LeqD(Mul8(FacLo(i), FacLo(j)), Shift8(FacHi(i + j)))
                           /\ LeqD(Shift8(FacLo(i + j)), Mul8(FacHi(i), FacHi(j)))
         /\ i + j = 60 =>  /\ LeqD(Mul8(FacLo(i), FacLo(j)), <<5000, 0, 0, 0>>)
                           /\ LeqD(<<5000, 0, 0, 0>>, Mul8(FacHi(i), FacHi(j)))

-----------------------------------------------------------------------------
(* x * v / 10^8 for 0 <= x <= 10^9, 0 <= v <= 10^8: a lower bound L with      *)
(* L <= exact < L + 3                                                         *)
MulDown(x, v) ==
  IF v = FLo[1] THEN x
  ELSE LET a == v \div D4  b == v % D4
           q == x \div D4  r == x % D4
           t1 == q * a + (r * a) \div D4
           u == q * b + (r * b) \div D4
       IN t1 + u \div D4
MulUp(x, v) == IF v = FLo[1] THEN x ELSE MulDown(x, v) + 3

RECURSIVE P2(_)
P2(n) == IF n = 0 THEN 1 ELSE 2 * P2(n - 1)

Max(a, b) == IF a > b THEN a ELSE b
Min(a, b) == IF a < b THEN a ELSE b

(* enclosure of x * 2^(-dt/60), 0 <= dt <= Lifetime *)
DecayLo(x, dt) == MulDown(x, FacLo(dt % Halflife)) \div P2(dt \div Halflife)
DecayHi(x, dt) == LET m == MulUp(x, FacHi(dt % Halflife))  h == P2(dt \div Halflife)
                  IN (m + h - 1) \div h

(* transient part at time t given its enclosure at time last *)
AtLo(lo, dt) == IF dt > Lifetime THEN 0 ELSE IF dt <= 0 THEN lo ELSE DecayLo(lo, dt)
AtHi(hi, dt) == IF dt > Lifetime THEN 0 ELSE IF dt <= 0 THEN hi ELSE DecayHi(hi, dt)

(* admitted integer results: when the value went through a multiplication by   *)
(* a decay factor (fz) the exact value may sit on an integer boundary and a    *)
(* float64 implementation may land on either side: 2 micro-points of slack.    *)
(* Sums of integers and a zero transient part are exact.                       *)
FloorLo(x, fz) == IF fz THEN Max(0, x - 2) \div S ELSE x \div S
FloorHi(x, fz) == IF fz THEN (x + 2) \div S ELSE x \div S

-----------------------------------------------------------------------------
CONSTANTS Steps,     \* admitted clock steps (seconds, may be negative)
          PAdd,      \* persistent increments
          TAdd,      \* transient increments
          MaxOps,
          T0         \* wall clock at the start

VARIABLES p,         \* persistent part
          lo, hi,    \* enclosure of the transient part at time `last` (micro-points)
          hiT,       \* upper bound if a transient of at most one point is carried undecayed (see SubUnit)
          fz,        \* the stored transient part went through an inexact multiplication
          last,      \* time of the last transient update (0 initially, as in the zero value)
          now,       \* clock
          n,
          out        \* last call with its admitted results

vars == <<p, lo, hi, hiT, fz, last, now, n, out>>

Init == /\ p = 0 /\ lo = 0 /\ hi = 0 /\ hiT = 0 /\ fz = FALSE /\ last = 0 /\ now = T0 /\ n = 0
        /\ out = [op |-> "init"]

(* SubUnit: the upper bound of an implementation that does not decay a        *)
(* transient part of at most one point when adding to it.  NOT part of the    *)
(* rule; carried along only so that a deviation of this class can be named    *)
(* and the rest of the behaviour still be judged.                             *)
CarryHi(h, l, dt) ==
  IF dt > Lifetime THEN 0
  ELSE IF dt <= 0 THEN h
  ELSE IF h <= S THEN h
  ELSE IF l > S THEN DecayHi(h, dt)
  ELSE Max(DecayHi(h, dt), Min(h, S))

(* admitted results of a score read at clock t *)
Fuzzy(f, h, dt) == dt <= Lifetime /\ (f \/ (dt > 0 /\ h > 0))
ScoreLo(pp, l, dt, f) == IF dt < 0 THEN pp ELSE pp + FloorLo(AtLo(l, dt), f)
ScoreHi(pp, h, dt, f) == pp + FloorHi(AtHi(h, dt), f)

Increase(d, pa, ta) ==
  LET t == now + d
      dt == t - last
      np == p + pa
      nlo == IF ta > 0 THEN AtLo(lo, dt) + ta * S ELSE lo
      nhi == IF ta > 0 THEN AtHi(hi, dt) + ta * S ELSE hi
      nhiT == IF ta > 0 THEN CarryHi(hiT, lo, dt) + ta * S ELSE hiT
      nlast == IF ta > 0 THEN t ELSE last
      nfz == IF ta > 0 THEN Fuzzy(fz, hiT, dt) ELSE fz
      ndt == t - nlast
      rf == Fuzzy(nfz, nhiT, ndt)
  IN /\ n < MaxOps /\ n' = n + 1
     /\ t >= 0
     /\ now' = t /\ p' = np /\ lo' = nlo /\ hi' = nhi /\ hiT' = nhiT /\ fz' = nfz /\ last' = nlast
     /\ out' = [op |-> "inc", t |-> t, pa |-> pa, ta |-> ta,
                rlo |-> ScoreLo(np, nlo, ndt, rf), rhi |-> ScoreHi(np, nhi, ndt, rf),
                \* deviation classes (not admitted by the rule):
                \* sub-unit transient carried undecayed
                thi |-> ScoreHi(np, nhiT, ndt, rf),
                \* the stored transient part reported without decaying it to t
                slo |-> np + FloorLo(nlo, nfz), shi |-> np + FloorHi(nhiT, nfz)]

Read(d) ==
  LET t == now + d  dt == t - last  rf == Fuzzy(fz, hiT, dt) IN
  /\ n < MaxOps /\ n' = n + 1
  /\ t >= 0
  /\ now' = t /\ UNCHANGED <<p, lo, hi, hiT, fz, last>>
  /\ out' = [op |-> "int", t |-> t, pa |-> 0, ta |-> 0,
             rlo |-> ScoreLo(p, lo, dt, rf), rhi |-> ScoreHi(p, hi, dt, rf),
             thi |-> ScoreHi(p, hiT, dt, rf), slo |-> ScoreLo(p, lo, dt, rf), shi |-> ScoreHi(p, hiT, dt, rf)]

Reset ==
  /\ n < MaxOps /\ n' = n + 1
  /\ p' = 0 /\ lo' = 0 /\ hi' = 0 /\ hiT' = 0 /\ fz' = FALSE /\ last' = 0 /\ UNCHANGED now
  /\ out' = [op |-> "reset", t |-> now, pa |-> 0, ta |-> 0, rlo |-> 0, rhi |-> 0, thi |-> 0, slo |-> 0, shi |-> 0]

Next == \/ \E d \in Steps, pa \in PAdd, ta \in TAdd : Increase(d, pa, ta)
        \/ \E d \in Steps : Read(d)
        \/ Reset

Spec == Init /\ [][Next]_vars

-----------------------------------------------------------------------------
(* Design properties (C35) *)
TypeOK == /\ 0 <= lo /\ lo <= hi /\ hi <= hiT /\ hi <= 1000 * S /\ p >= 0
(* scores never go negative, and are at least the persistent part *)
NonNegative == out.op \in {"inc", "int"} => (0 <= out.rlo /\ p <= out.rlo /\ out.rlo <= out.rhi)
(* the enclosure stays tight: the admitted results are at most two neighbouring integers *)
Tight == out.op \in {"inc", "int"} => out.rhi - out.rlo <= 1 \/ now < last
(* forgotten after 30 minutes *)
Forgotten == (out.op = "int" /\ now - last > Lifetime) => (out.rlo = p /\ out.rhi = p)
(* an increase raises the score by at least the persistent amount: action property *)
Monotone == [][out'.op = "inc" => p' = p + out'.pa]_vars

View == <<p, lo, hi, hiT, fz, last, now>>
=============================================================================
