---------------------------- MODULE BanScoreBig ----------------------------
(* Case table for the forgetting clause of C35.  With transient parts below    *)
(* 1000 points the 30-minute rule is unobservable (1000 * 2^-30 < 1), so this  *)
(* module evaluates the rule of BanScore.tla on one large transient amount     *)
(* B = m * 2^20 points (m <= 2047, i.e. B < 2^31) read after dt seconds:       *)
(*   Increase(0, B) @ T0  -> B            Int() @ T0 + dt -> floor(B * 2^(-dt/60)), 0 if dt > 1800 *)
(* Halving is exact on m * 2^20; for more than 20 halvings the value is        *)
(* carried in micro-points as in BanScore.tla, otherwise in points with the    *)
(* 8-digit factor enclosure (a wider interval, still a sound bound).           *)
EXTENDS BanScore, Json, TLC

VARIABLE c
Ms == {2047, 1024, 777}
Dts == {0, 1, 60, 600, 1199, 1200, 1260, 1500, 1740, 1799, 1800, 1801, 1860, 3600}
BigCases == [m : Ms, dt : Dts]

(* x * v / 10^8 for x < 2^31 (points): lower bound L, exact < L + 3 *)
BigLo(m, dt) ==
  LET nh == dt \div Halflife  k == dt % Halflife IN
  IF dt > Lifetime THEN 0
  ELSE IF nh <= 20 THEN MulDown(m * P2(20 - nh), FacLo(k))                                  \* points
  ELSE FloorLo(MulDown((m * S) \div P2(nh - 20), FacLo(k)), TRUE)                           \* via micro-points
BigHi(m, dt) ==
  LET nh == dt \div Halflife  k == dt % Halflife IN
  IF dt > Lifetime THEN 0
  ELSE IF nh <= 20 THEN MulUp(m * P2(20 - nh), FacHi(k))
  ELSE FloorHi(MulUp((m * S + P2(nh - 20) - 1) \div P2(nh - 20), FacHi(k)), TRUE)

Doc(x) == LET b == x.m * P2(20) IN
  << [op |-> "inc", t |-> T0, pa |-> 0, ta |-> b, rlo |-> b, rhi |-> b, thi |-> b, slo |-> b, shi |-> b],
     [op |-> "int", t |-> T0 + x.dt, pa |-> 0, ta |-> 0, rlo |-> BigLo(x.m, x.dt), rhi |-> BigHi(x.m, x.dt),
      thi |-> BigHi(x.m, x.dt), slo |-> BigLo(x.m, x.dt), shi |-> BigHi(x.m, x.dt)] >>

BInit == c \in BigCases /\ PrintT("EXPORT " \o ToJson(Doc(c)))
        /\ p = 0 /\ lo = 0 /\ hi = 0 /\ hiT = 0 /\ fz = FALSE /\ last = 0 /\ now = T0 /\ n = 0 /\ out = [op |-> "init"]
BNext == UNCHANGED <<c, vars>>
(* sanity of the table itself: ordered bounds, exact at dt = 0, zero beyond the lifetime, halving at whole minutes *)
BigSane == /\ BigLo(c.m, c.dt) <= BigHi(c.m, c.dt)
           /\ c.dt = 0 => BigLo(c.m, 0) = c.m * P2(20) /\ BigHi(c.m, 0) = c.m * P2(20)
           /\ c.dt > Lifetime => BigHi(c.m, c.dt) = 0
           /\ c.dt = 600 => BigLo(c.m, 600) = c.m * P2(10)
           /\ c.dt = 1800 /\ c.m = 1024 => BigLo(c.m, 1800) <= 1 /\ 1 <= BigHi(c.m, 1800)
           /\ c.dt = 1800 /\ c.m = 2047 => BigLo(c.m, 1800) = 1 /\ BigHi(c.m, 1800) = 1
=============================================================================
