----------------------------- MODULE BanScoreGen -----------------------------
(* Behaviour export of BanScore.tla: every explored transition with the call  *)
(* sequence reaching it; every call carries the interval of admitted results. *)
EXTENDS BanScore, Json, TLC

VARIABLE hist
GInit == Init /\ hist = <<>>
GNext == Next /\ hist' = Append(hist, out')
GView == View
Export == PrintT("EXPORT " \o ToJson(hist'))
StepsQ == {0, 1, 60, 61, 1801, -1}
StepsT == {0, 1, 59, 60, 61, 119, 1799, 1800, 1801, -1, -61}
StepsD == {1, 60, 1801}
GMonotone == [][out'.op = "inc" => p' = p + out'.pa]_<<vars, hist>>
=============================================================================
