--------------------------------- MODULE Dht ---------------------------------
(* Specification of the Kademlia routing table of p2p/discover/dht/table.go.  *)
(* Buckets hold an ordered list of entries (most recently active first) and   *)
(* a replacement list.  Actions = the table operations:                       *)
(*   Add(n)            bump if present, else insert at the front if the       *)
(*                     bucket has room, else remember n as a replacement      *)
(*   Stuff(ns)         bulk insertion at the end of non-full buckets          *)
(*   Delete(n)         remove from the entries, or else from the replacements *)
(*   DeleteReplace(n)  remove and refill from the replacement list            *)
(*   Bump(n)           move an entry to the front                             *)
(* Property C34 (DhtProps): every bucket holds at most BSize distinct nodes   *)
(* at the bucket's distance, the local node is never present, and count is    *)
(* the number of entries.                                                     *)
(*                                                                            *)
(* StaleRepl selects the design variant:                                      *)
(*   FALSE  a node that enters the entries (Add into a bucket with room,      *)
(*          Stuff) is purged from the replacement list (TLC proves the        *)
(*          property for this variant);                                       *)
(*   TRUE   the replacement list is left alone, as table.go does today: TLC   *)
(*          finds DeleteReplace re-inserting a node that Add or Stuff already *)
(*          put into the entries (duplicate entry).  This variant is what is  *)
(*          replayed against the code, so that the counterexample is tried on *)
(*          the real table.                                                   *)
EXTENDS DhtProps, TLC

CONSTANTS Nodes,       \* node identities, including Self
          Self,        \* the local node
          DistOf,      \* [Nodes -> Nat] log-distance to the local node (= bucket index)
          BSize,       \* bucket capacity (16 in the code)
          RSize,       \* replacement list capacity (16 in the code)
          StuffLists,  \* set of node sequences given to Stuff
          Deletable,   \* nodes Delete / DeleteReplace are called with
          StaleRepl,
          MaxOps

VARIABLES entries,     \* [Buckets -> Seq(Nodes)]
          repl,        \* [Buckets -> Seq(Nodes)]
          count,
          n,
          last

vars == <<entries, repl, count, n, last>>
Buckets == {DistOf[x] : x \in Nodes \ {Self}}

InSeq(q, x) == \E i \in 1..Len(q) : q[i] = x
Without(q, x) == SelectSeq(q, LAMBDA y : y # x)
IndexOf(q, x) == CHOOSE i \in 1..Len(q) : q[i] = x /\ \A j \in 1..(i - 1) : q[j] # x
RemoveAt(q, i) == SubSeq(q, 1, i - 1) \o SubSeq(q, i + 1, Len(q))
ToFront(q, x) == <<x>> \o RemoveAt(q, IndexOf(q, x))

Init == /\ entries = [b \in Buckets |-> <<>>]
        /\ repl = [b \in Buckets |-> <<>>]
        /\ count = 0 /\ n = 0
        /\ last = [op |-> "init"]

Call(c) == n < MaxOps /\ n' = n + 1 /\ last' = c

Add(x) ==
  /\ Call([op |-> "add", x |-> x])
  /\ IF x = Self THEN UNCHANGED <<entries, repl, count>>
     ELSE LET b == DistOf[x] IN
          IF InSeq(entries[b], x)
            THEN entries' = [entries EXCEPT ![b] = ToFront(@, x)] /\ UNCHANGED <<repl, count>>
          ELSE IF Len(entries[b]) < BSize
            THEN /\ entries' = [entries EXCEPT ![b] = <<x>> \o @] /\ count' = count + 1
                 /\ IF StaleRepl THEN UNCHANGED repl ELSE repl' = [repl EXCEPT ![b] = Without(@, x)]
          ELSE LET r == Append(Without(repl[b], x), x)
               IN /\ repl' = [repl EXCEPT ![b] = IF Len(r) > RSize THEN Tail(r) ELSE r]
                  /\ UNCHANGED <<entries, count>>

(* one node of a bulk insertion, on intermediate state <<E, R, c>> *)
Stuff1(s, x) ==
  IF x = Self THEN s
  ELSE LET b == DistOf[x] IN
       IF InSeq(s[1][b], x) \/ Len(s[1][b]) >= BSize THEN s
       ELSE << [s[1] EXCEPT ![b] = Append(@, x)],
               IF StaleRepl THEN s[2] ELSE [s[2] EXCEPT ![b] = Without(@, x)],
               s[3] + 1 >>
RECURSIVE StuffAll(_, _)
StuffAll(s, xs) == IF xs = <<>> THEN s ELSE StuffAll(Stuff1(s, Head(xs)), Tail(xs))

Stuff(xs) ==
  /\ Call([op |-> "stuff", xs |-> xs])
  /\ LET s == StuffAll(<<entries, repl, count>>, xs)
     IN entries' = s[1] /\ repl' = s[2] /\ count' = s[3]

Delete(x) ==
  /\ Call([op |-> "delete", x |-> x])
  /\ x # Self
  /\ LET b == DistOf[x] IN
     IF InSeq(entries[b], x)
       THEN /\ entries' = [entries EXCEPT ![b] = RemoveAt(@, IndexOf(@, x))]
            /\ count' = count - 1 /\ UNCHANGED repl
       ELSE repl' = [repl EXCEPT ![b] = Without(@, x)] /\ UNCHANGED <<entries, count>>

DeleteReplace(x) ==
  /\ Call([op |-> "deletereplace", x |-> x])
  /\ x # Self
  /\ LET b == DistOf[x]
         e1 == Without(entries[b], x)
         c1 == count - (Len(entries[b]) - Len(e1))
         r1 == Without(repl[b], x)
     IN IF Len(e1) < BSize /\ r1 # <<>>
          THEN /\ entries' = [entries EXCEPT ![b] = <<r1[Len(r1)]>> \o e1]
               /\ repl' = [repl EXCEPT ![b] = SubSeq(r1, 1, Len(r1) - 1)]
               /\ count' = c1 + 1
          ELSE /\ entries' = [entries EXCEPT ![b] = e1]
               /\ repl' = [repl EXCEPT ![b] = r1]
               /\ count' = c1

Bump(x) ==
  /\ Call([op |-> "bump", x |-> x])
  /\ x # Self
  /\ LET b == DistOf[x] IN
     IF InSeq(entries[b], x)
       THEN entries' = [entries EXCEPT ![b] = ToFront(@, x)]
       ELSE UNCHANGED entries
  /\ UNCHANGED <<repl, count>>

Next == \/ \E x \in Nodes : Add(x) \/ Bump(x)
        \/ \E x \in Deletable : Delete(x) \/ DeleteReplace(x)
        \/ \E xs \in StuffLists : Stuff(xs)

Spec == Init /\ [][Next]_vars

-----------------------------------------------------------------------------
(* The property on the model state *)
Snap == [b \in Buckets |-> [i \in 1..Len(entries[b]) |-> [id |-> entries[b][i], dist |-> DistOf[entries[b][i]]]]]
Capacity == CapOK(Snap, BSize)
Distinct == DistinctOK(Snap)
Distance == DistanceOK(Snap)
NoSelf == NoSelfOK(Snap, Self)
CountExact == CountOK(Snap, count)
ReplBounded == \A b \in Buckets : Len(repl[b]) <= RSize

View == <<entries, repl, count>>
=============================================================================
