-------------------------------- MODULE DhtGen --------------------------------
(* Behaviour export of Dht.tla for the replay against the real table: every   *)
(* explored transition with the operation sequence reaching it and the model's *)
(* table after it (ExportAt = 0), or only complete behaviours of length        *)
(* ExportAt (simulation mode).                                                 *)
EXTENDS Dht, Json

CONSTANT ExportAt
VARIABLE hist
GInit == Init /\ hist = <<>>
Obs == [count |-> count, broken |-> Broken(Snap, BSize, Self, count),
        buckets |-> [b \in Buckets |-> [e |-> entries[b], r |-> repl[b]]]]
GNext == Next /\ hist' = Append(hist, last')
GView == View
Export == (ExportAt = 0 \/ Len(hist') = ExportAt) => PrintT("EXPORT " \o ToJson([calls |-> hist', obs |-> Obs']))

\* ---- small instance: bucket capacity 2 (the real buckets are pre-filled with 14 nodes by the harness),
\* four nodes colliding in one bucket, two nodes in another bucket, the local node
NodesS == {"a", "b", "c", "d", "e", "f", "self"}
DistS == [x \in NodesS |-> CASE x = "self" -> 0 [] x \in {"e", "f"} -> 255 [] OTHER -> 256]
StuffS == {<<"a">>, <<"c">>, <<"d">>, <<"self">>, <<"a", "b">>, <<"c", "a">>, <<"a", "a">>, <<"c", "e", "d">>, <<"b", "self", "e", "f">>}
DelS == {"a", "b", "c", "e"}

\* ---- full-size instance: capacity 16, 36 nodes colliding in one bucket, 4 in another
NodesL == {"self"} \cup {ToString(i) : i \in 1..40}
DistL == [x \in NodesL |-> IF x = "self" THEN 0 ELSE IF x \in {"37", "38", "39", "40"} THEN 250 ELSE 256]
Ids(a, b) == [i \in 1..(b - a + 1) |-> ToString(a + i - 1)]
StuffL == {<<ToString(i)>> : i \in 1..40} \cup {Ids(1, 20), Ids(15, 36), Ids(30, 40), <<"self", "1", "1", "37">>}
DelL == {ToString(i) : i \in {1, 2, 3, 17, 18, 19, 36, 37}}
DelNone == {}        \* no deletions: the replacement list of the crowded bucket overflows
=============================================================================
