------------------------------ MODULE DhtProps ------------------------------
(* The routing-table property C34, as predicates over a table snapshot.       *)
(* A snapshot is a function from bucket indices to sequences of entries; each *)
(* entry is a record [id, dist] (dist = log-distance of the node to the local *)
(* node).  Used by Dht.tla on the model state and by TraceDht.tla on the      *)
(* snapshots of the real table.                                               *)
EXTENDS Naturals, Sequences, FiniteSets

RECURSIVE SumLen(_, _)
SumLen(E, S) == IF S = {} THEN 0
                ELSE LET b == CHOOSE x \in S : TRUE IN Len(E[b]) + SumLen(E, S \ {b})

(* (LET q == E[b]: the bucket is evaluated once per clause) *)
CapOK(E, cap) == \A b \in DOMAIN E : Len(E[b]) <= cap
DistinctOK(E) == \A b \in DOMAIN E : LET q == E[b] IN \A i, j \in 1..Len(q) : i < j => q[i].id # q[j].id
DistanceOK(E) == \A b \in DOMAIN E : LET q == E[b] IN \A i \in 1..Len(q) : q[i].dist = b
NoSelfOK(E, self) == \A b \in DOMAIN E : LET q == E[b] IN \A i \in 1..Len(q) : q[i].id # self
CountOK(E, count) == count = SumLen(E, DOMAIN E)

(* name of the first broken clause, "" when the snapshot satisfies the property *)
Broken(E, cap, self, count) ==
  IF ~CapOK(E, cap) THEN "bucket-over-capacity"
  ELSE IF ~DistinctOK(E) THEN "duplicate-entry"
  ELSE IF ~DistanceOK(E) THEN "wrong-distance"
  ELSE IF ~NoSelfOK(E, self) THEN "self-present"
  ELSE IF ~CountOK(E, count) THEN "count-mismatch"
  ELSE ""
=============================================================================
