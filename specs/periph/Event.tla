------------------------------- MODULE Event -------------------------------
(* Specification of event.Dispatcher / event.Subscription (event/event.go).   *)
(* One action per public call; Post is split into PostBegin / Deliver /       *)
(* PostEnd exactly as the code does it (the receiver list is read under the   *)
(* read lock, deliveries happen after the lock is released), so that the      *)
(* concurrent trace specification can interleave other calls in between.      *)
(* `Atomic = TRUE` forces a Post to run to completion (sequential callers).   *)
EXTENDS Naturals, Sequences, FiniteSets, TLC

CONSTANTS Subs,      \* subscription identities
          Types,     \* event types
          QMax,      \* channel capacity (65536 in the code; scaled in replay)
          MaxPosts,  \* bound on the number of Post calls
          MaxRecv,   \* bound on Recv calls
          Callers,   \* posting threads
          Atomic     \* TRUE: Post is one indivisible step sequence

VARIABLES subm,      \* [Types -> Seq(Subs)] receivers registered per type (d.subm)
          stopped,   \* d.stopped
          st,        \* [Subs -> {"new","open","closed"}]
          stypes,    \* [Subs -> SUBSET Types] types given to Subscribe
          queue,     \* [Subs -> Seq(Nat)] channel content (event ids)
          chClosed,  \* [Subs -> BOOLEAN] channel closed
          nposted,   \* number of Post calls started
          inflight,  \* [Callers -> [ev, typ, todo : Seq(Subs)] or NoPost]
          \* ---- ghost: the property, stated without the implementation's tables
          posted,    \* Seq([id, typ, due : SUBSET Subs]) completed+running posts in order
          got,       \* [Subs -> Seq(Nat)] events taken out of the channel
          nrecv,
          must,      \* [Subs -> SUBSET Nat] events a subscriber is entitled to: it was due when the
                     \* post began and still not closed when the post returned
          last       \* observable result of the last call (for replay)

vars == <<subm, stopped, st, stypes, queue, chClosed, nposted, inflight, posted, got, nrecv, must, last>>

NoPost == [ev |-> 0, typ |-> "none", todo |-> <<>>]

Init == /\ subm = [t \in Types |-> <<>>]
        /\ stopped = FALSE
        /\ st = [s \in Subs |-> "new"]
        /\ stypes = [s \in Subs |-> {}]
        /\ queue = [s \in Subs |-> <<>>]
        /\ chClosed = [s \in Subs |-> FALSE]
        /\ nposted = 0
        /\ inflight = [c \in Callers |-> NoPost]
        /\ posted = <<>>
        /\ got = [s \in Subs |-> <<>>]
        /\ nrecv = 0
        /\ must = [s \in Subs |-> {}]
        /\ last = [op |-> "init"]

Idle == Atomic => \A c \in Callers : inflight[c] = NoPost

SeqRemove(q, x) == SelectSeq(q, LAMBDA y : y # x)
InSeq(q, x) == \E i \in 1..Len(q) : q[i] = x

(* Dispatcher.Subscribe(types...) creating subscription s *)
Subscribe(s, ts) ==
  /\ Idle /\ st[s] = "new" /\ ts # {}
  /\ stypes' = [stypes EXCEPT ![s] = ts]
  /\ IF stopped
       THEN /\ st' = [st EXCEPT ![s] = "closed"]
            /\ chClosed' = [chClosed EXCEPT ![s] = TRUE]
            /\ UNCHANGED subm
       ELSE /\ st' = [st EXCEPT ![s] = "open"]
            /\ subm' = [t \in Types |-> IF t \in ts THEN Append(subm[t], s) ELSE subm[t]]
            /\ UNCHANGED chClosed
  /\ last' = [op |-> "subscribe", s |-> s, ts |-> ts]
  /\ UNCHANGED <<stopped, queue, nposted, inflight, posted, got, nrecv, must>>

(* The delivery of one running post to its next receiver (Subscription.deliver) *)
DeliverTo(c) ==
  LET p == inflight[c]  s == Head(p.todo) IN
  /\ p # NoPost /\ p.todo # <<>>
  /\ IF chClosed[s] \/ Len(queue[s]) >= QMax
       THEN UNCHANGED queue                       \* closed, or full: dropped
       ELSE queue' = [queue EXCEPT ![s] = Append(@, p.ev)]
  /\ inflight' = [inflight EXCEPT ![c].todo = Tail(p.todo)]

PostBegin(c, t, id) ==
  /\ inflight[c] = NoPost /\ nposted < MaxPosts
  /\ Atomic => \A d \in Callers : inflight[d] = NoPost
  /\ nposted' = nposted + 1
  /\ IF stopped
       THEN /\ last' = [op |-> "post", ev |-> id, t |-> t, err |-> "closed"]
            /\ UNCHANGED <<inflight, posted>>
       ELSE /\ inflight' = [inflight EXCEPT ![c] = [ev |-> id, typ |-> t, todo |-> subm[t]]]
            /\ posted' = Append(posted, [id |-> id, typ |-> t, c |-> c,
                                         due |-> {s \in Subs : st[s] = "open" /\ t \in stypes[s]
                                                               /\ Len(queue[s]) < QMax}])
            /\ last' = [op |-> "postbegin", ev |-> id]
  /\ UNCHANGED <<subm, stopped, st, stypes, queue, chClosed, got, nrecv, must>>

PostDeliver(c) ==
  /\ DeliverTo(c)
  /\ last' = [op |-> "deliver"]
  /\ UNCHANGED <<subm, stopped, st, stypes, chClosed, nposted, posted, got, nrecv, must>>

PostEnd(c) ==
  /\ inflight[c] # NoPost /\ inflight[c].todo = <<>>
  /\ inflight' = [inflight EXCEPT ![c] = NoPost]
  /\ last' = [op |-> "post", ev |-> inflight[c].ev, t |-> inflight[c].typ, err |-> "nil"]
  /\ must' = [s \in Subs |-> IF (\E i \in 1..Len(posted) : posted[i].id = inflight[c].ev /\ s \in posted[i].due)
                                 /\ ~chClosed[s]
                              THEN must[s] \cup {inflight[c].ev} ELSE must[s]]
  /\ UNCHANGED <<subm, stopped, st, stypes, queue, chClosed, nposted, posted, got, nrecv>>

(* Subscription.Unsubscribe = Dispatcher.del (under the dispatcher lock) followed by *)
(* closewait (closes the channel). Other threads can run in between; sequential    *)
(* callers see the composition.                                                    *)
UnsubDel(s) ==
  /\ ~Atomic /\ st[s] \in {"open", "closed"}
  /\ subm' = [t \in Types |-> SeqRemove(subm[t], s)]
  /\ st' = [st EXCEPT ![s] = IF @ = "open" THEN "closing" ELSE @]
  /\ last' = [op |-> "unsubdel", s |-> s]
  /\ UNCHANGED <<stopped, stypes, queue, chClosed, nposted, inflight, posted, got, nrecv, must>>

UnsubClose(s) ==
  /\ ~Atomic /\ st[s] \in {"closing", "closed"}
  /\ st' = [st EXCEPT ![s] = "closed"]
  /\ chClosed' = [chClosed EXCEPT ![s] = TRUE]
  /\ last' = [op |-> "unsubscribe", s |-> s]
  /\ UNCHANGED <<subm, stopped, stypes, queue, nposted, inflight, posted, got, nrecv, must>>

Unsubscribe(s) ==
  /\ Atomic /\ Idle /\ st[s] # "new"
  /\ subm' = [t \in Types |-> SeqRemove(subm[t], s)]
  /\ st' = [st EXCEPT ![s] = "closed"]
  /\ chClosed' = [chClosed EXCEPT ![s] = TRUE]
  /\ last' = [op |-> "unsubscribe", s |-> s]
  /\ UNCHANGED <<stopped, stypes, queue, nposted, inflight, posted, got, nrecv, must>>

(* Dispatcher.Stop: closes every registered subscription *)
Stop ==
  /\ Idle
  /\ stopped' = TRUE
  /\ subm' = [t \in Types |-> <<>>]
  /\ st' = [s \in Subs |-> IF \E t \in Types : InSeq(subm[t], s) THEN "closed" ELSE st[s]]
  /\ chClosed' = [s \in Subs |-> chClosed[s] \/ \E t \in Types : InSeq(subm[t], s)]
  /\ last' = [op |-> "stop"]
  /\ UNCHANGED <<stypes, queue, nposted, inflight, posted, got, nrecv, must>>

(* Stop closes the registered subscriptions one after the other under the dispatcher lock; a post that took its *)
(* snapshot before goes on delivering meanwhile (deliveries do not take that lock), so it can skip a receiver     *)
(* that Stop has closed and still reach one that Stop has not closed yet. StopCloseOne is one such close; Stop   *)
(* completes the call (closes the rest, clears the registry, sets the flag).                                     *)
StopCloseOne(s) ==
  /\ ~Atomic /\ ~stopped /\ (\E t \in Types : InSeq(subm[t], s)) /\ ~chClosed[s]
  /\ st' = [st EXCEPT ![s] = "closed"]
  /\ chClosed' = [chClosed EXCEPT ![s] = TRUE]
  /\ last' = [op |-> "stopclose", s |-> s]
  /\ UNCHANGED <<subm, stopped, stypes, queue, nposted, inflight, posted, got, nrecv, must>>

(* A non-blocking receive on Subscription.Chan() *)
Recv(s) ==
  /\ Idle /\ st[s] # "new" /\ nrecv < MaxRecv
  /\ nrecv' = nrecv + 1
  /\ IF queue[s] # <<>>
       THEN /\ queue' = [queue EXCEPT ![s] = Tail(@)]
            /\ got' = [got EXCEPT ![s] = Append(@, Head(queue[s]))]
            /\ last' = [op |-> "recv", s |-> s, r |-> "ev", ev |-> Head(queue[s])]
       ELSE /\ UNCHANGED <<queue, got>>
            /\ last' = [op |-> "recv", s |-> s, r |-> IF chClosed[s] THEN "closed" ELSE "empty", ev |-> 0]
  /\ UNCHANGED <<subm, stopped, st, stypes, chClosed, nposted, inflight, posted, must>>

Next ==
  \/ \E s \in Subs, ts \in SUBSET Types : Subscribe(s, ts)
  \/ \E c \in Callers, t \in Types : PostBegin(c, t, nposted + 1)
  \/ \E c \in Callers : PostDeliver(c) \/ PostEnd(c)
  \/ \E s \in Subs : Unsubscribe(s) \/ UnsubDel(s) \/ UnsubClose(s) \/ Recv(s) \/ StopCloseOne(s)
  \/ Stop

Spec == Init /\ [][Next]_vars

-----------------------------------------------------------------------------
(* Properties (C39) *)
TypeOK == /\ \A s \in Subs : Len(queue[s]) <= QMax
          /\ \A t \in Types : \A i, j \in 1..Len(subm[t]) : i # j => subm[t][i] # subm[t][j]

Ids(q) == {q[i] : i \in 1..Len(q)}
Due(s) == SelectSeq(posted, LAMBDA p : s \in p.due)
DueIds(s) == [i \in 1..Len(Due(s)) |-> Due(s)[i].id]
IsSubSeq(a, b) == \* a is a subsequence of b (both strictly increasing id sequences)
  /\ \A i \in 1..Len(a) : InSeq(b, a[i])
  /\ \A i, j \in 1..Len(a) : i < j => a[i] < a[j]

Received(s) == got[s] \o queue[s]

(* Sequential statement: with no post in flight, what a subscriber has received  *)
(* or can still receive is exactly the due posts, in order, once each.           *)
ExactlyDue == (\A c \in Callers : inflight[c] = NoPost) =>
                 \A s \in Subs : Received(s) = DueIds(s)
(* Always (also mid-post and under concurrency): only due events, once each;    *)
(* ascending order is only guaranteed for a single poster.                       *)
OnlyDueOnce == \A s \in Subs :
                 /\ \A i \in 1..Len(Received(s)) : InSeq(DueIds(s), Received(s)[i])
                 /\ \A i, j \in 1..Len(Received(s)) : i # j => Received(s)[i] # Received(s)[j]
InOrder == Cardinality(Callers) = 1 => \A s \in Subs : IsSubSeq(Received(s), DueIds(s))
PostAfterStopFails == (Atomic /\ stopped) => \A c \in Callers : inflight[c] = NoPost
ClosedMeansUnregistered == \A s \in Subs : st[s] = "closed" => \A t \in Types : ~InSeq(subm[t], s)

(* Concurrent statement: whoever was due and stayed open until the post returned has it. *)
Entitled == \A s \in Subs : must[s] \subseteq Ids(Received(s))
(* Per poster, a subscriber sees that poster's events in the order they were posted.    *)
PostedIdx(id) == CHOOSE k \in 1..Len(posted) : posted[k].id = id
PosterOrder == \A s \in Subs : \A i, j \in 1..Len(Received(s)) :
                 LET a == PostedIdx(Received(s)[i])  b == PostedIdx(Received(s)[j]) IN
                 (i < j /\ posted[a].c = posted[b].c) => a < b

View == <<subm, stopped, st, stypes, queue, chClosed, nposted, inflight, posted, got, nrecv, must>>
=============================================================================
