------------------------------ MODULE EventSeq ------------------------------
(* Sequential instance of Event used for exhaustive replay against the code:  *)
(* every explored transition is exported with the whole call sequence that    *)
(* reaches it and the expected observable result of every call.               *)
EXTENDS Event, Json

VARIABLE hist
HInit == Init /\ hist = <<>>
Obs == [q |-> [s \in Subs |-> Len(queue[s])], c |-> [s \in Subs |-> chClosed[s]]]
\* A sequential Post is PostBegin followed by all deliveries and PostEnd: composed here
\* as one exported call by running the sub-steps silently (no hist entry) until PostEnd.
HNext == /\ Next
         /\ hist' = IF last'.op \in {"postbegin", "deliver"} THEN hist
                    ELSE Append(hist, [call |-> last', obs |-> Obs'])
HView == View
Export == (last'.op \notin {"postbegin", "deliver"}) => PrintT("EXPORT " \o ToJson(hist'))
=============================================================================
