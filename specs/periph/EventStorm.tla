------------------------------ MODULE EventStorm ------------------------------
(* What Event.tla's OnlyDueOnce / InOrder / ExactlyDue say about a subscriber's  *)
(* whole reception, evaluated by TLC over long concurrent runs of the real       *)
(* dispatcher (many subscribers of one type, posters posting continuously while  *)
(* subscribers in the middle of the list unsubscribe).                           *)
(*                                                                               *)
(* A run is [posted |-> <<ids of poster 1 in post order, ...>>,                  *)
(*           subs   |-> <<[ids |-> what it received, in order,                   *)
(*                         stable |-> subscribed before the first post and only   *)
(*                                    unsubscribed after the last one returned]>>]*)
(* Event.tla: a post delivers to every receiver of its snapshot exactly once     *)
(* (OnlyDueOnce), a receiver sees one poster's events in post order (InOrder),   *)
(* and a receiver that is subscribed for the whole duration of a post is in its  *)
(* snapshot (ExactlyDue) - so it receives every event of every poster.           *)
EXTENDS Integers, Sequences, FiniteSets, Json, TLC

Runs == ndJsonDeserialize("storm.ndjson")

Range(q) == {q[i] : i \in 1..Len(q)}
Proj(q, S) == SelectSeq(q, LAMBDA x : x \in S)
Increasing(q) == \A i \in 1..(Len(q) - 1) : q[i] < q[i + 1]      \* ids of one poster grow in post order

SubOk(r, posted) ==
  /\ \A p \in 1..Len(posted) : Increasing(Proj(r.ids, Range(posted[p])))          \* no duplicate, post order
  /\ Range(r.ids) \subseteq UNION {Range(posted[p]) : p \in 1..Len(posted)}       \* only posted events
  /\ r.stable => \A p \in 1..Len(posted) : Proj(r.ids, Range(posted[p])) = posted[p]   \* nothing lost

RunOk(run) == \A k \in 1..Len(run.subs) : SubOk(run.subs[k], run.posted)
BadSubs(run) == {k \in 1..Len(run.subs) : ~SubOk(run.subs[k], run.posted)}

VARIABLE done
Init == /\ done = FALSE
        /\ PrintT("EXPORT " \o ToJson([bad |-> {[run |-> i, subs |-> BadSubs(Runs[i])] : i \in {i \in 1..Len(Runs) : ~RunOk(Runs[i])}},
                                       runs |-> Len(Runs)]))
Next == done' = TRUE
=============================================================================
