--------------------------------- MODULE KV ---------------------------------
(* Specification of the key-value backend contract `dbm.DB`                   *)
(* (database/leveldb/db.go) that MemDB and GoLevelDB both have to implement.  *)
(*                                                                            *)
(* Keys and values are byte strings = sequences of 0..255, ordered            *)
(* lexicographically (bytes.Compare).  The store is a finite map; every       *)
(* result is a deterministic function of the map:                             *)
(*   Get(k)            value or "missing"; an empty value is NOT missing      *)
(*   Set / Delete      point writes; Delete of a missing key is a no-op       *)
(*   Batch(ops)        all ops applied in order, atomically                   *)
(*   IterPrefix(p)     iterator over the keys having prefix p, ascending,     *)
(*                     positioned BEFORE the first one                        *)
(*   IterStart(p, s)   same range, positioned ON the first key >= s of the    *)
(*                     range (Key/Value valid at once); no such key: the      *)
(*                     iterator is exhausted and Key/Value are empty;         *)
(*                     s = "no start" (nil): same as IterPrefix               *)
(*   Next              advance; FALSE when the range is exhausted             *)
(*   Key / Value       of the current position                                *)
(* An iterator is a snapshot taken at creation: later writes do not change    *)
(* what it returns.                                                           *)
EXTENDS Naturals, Sequences, FiniteSets

CONSTANTS Keys,      \* set of byte strings used as keys
          Vals,      \* set of byte strings used as values (contains <<>>)
          Prefixes,  \* iterator prefixes
          Starts,    \* iterator start keys (need not be stored keys)
          Batches,   \* set of sequences of [o : {"set","del"}, k, v]
          MaxOps     \* bound on the number of calls in one behaviour

VARIABLES kv,        \* [Keys -> [has : BOOLEAN, v : Vals]]
          it,        \* [open, items : Seq([k, v]), pos : 0..Len(items)+1]
          n,         \* number of calls so far
          last       \* the last call with its observable result (for replay)

vars == <<kv, it, n, last>>

Absent == [has |-> FALSE, v |-> <<>>]
NoIter == [open |-> FALSE, items |-> <<>>, pos |-> 0]
NoStart == <<256>>          \* stands for a nil start key (not a byte string)

-----------------------------------------------------------------------------
(* byte-string order and prefix *)
Min(a, b) == IF a < b THEN a ELSE b

RECURSIVE LexLess(_, _)
LexLess(a, b) ==            \* a < b in bytes.Compare order
  IF a = <<>> THEN b # <<>>
  ELSE IF b = <<>> THEN FALSE
  ELSE IF Head(a) # Head(b) THEN Head(a) < Head(b)
  ELSE LexLess(Tail(a), Tail(b))
LexLeq(a, b) == a = b \/ LexLess(a, b)

HasPrefix(k, p) == Len(p) <= Len(k) /\ SubSeq(k, 1, Len(p)) = p

(* the keys of a finite set of byte strings in ascending order *)
RECURSIVE SortKeys(_)
SortKeys(S) == IF S = {} THEN <<>>
               ELSE LET m == CHOOSE x \in S : \A y \in S : LexLeq(x, y)
                    IN <<m>> \o SortKeys(S \ {m})

Stored == {k \in Keys : kv[k].has}
Range(p) == LET ks == SortKeys({k \in Stored : HasPrefix(k, p)})
            IN [i \in 1..Len(ks) |-> [k |-> ks[i], v |-> kv[ks[i]].v]]

(* index of the first item with key >= s, Len+1 when there is none *)
SeekPos(items, s) ==
  LET ok == {i \in 1..Len(items) : LexLeq(s, items[i].k)}
  IN IF ok = {} THEN Len(items) + 1 ELSE CHOOSE i \in ok : \A j \in ok : i <= j

Valid(i) == i.open /\ 1 <= i.pos /\ i.pos <= Len(i.items)
CurKey(i) == IF Valid(i) THEN i.items[i.pos].k ELSE <<>>
CurVal(i) == IF Valid(i) THEN i.items[i.pos].v ELSE <<>>

-----------------------------------------------------------------------------
Init == /\ kv = [k \in Keys |-> Absent]
        /\ it = NoIter
        /\ n = 0
        /\ last = [op |-> "init"]

Call(c) == n < MaxOps /\ n' = n + 1 /\ last' = c

Get(k) ==
  /\ Call([op |-> "get", k |-> k, found |-> kv[k].has, val |-> kv[k].v])
  /\ UNCHANGED <<kv, it>>

Set(k, v) ==
  /\ Call([op |-> "set", k |-> k, v |-> v])
  /\ kv' = [kv EXCEPT ![k] = [has |-> TRUE, v |-> v]]
  /\ UNCHANGED it

Delete(k) ==
  /\ Call([op |-> "del", k |-> k])
  /\ kv' = [kv EXCEPT ![k] = Absent]
  /\ UNCHANGED it

RECURSIVE ApplyOps(_, _)
ApplyOps(m, ops) ==
  IF ops = <<>> THEN m
  ELSE LET o == Head(ops)
       IN ApplyOps([m EXCEPT ![o.k] = IF o.o = "set" THEN [has |-> TRUE, v |-> o.v] ELSE Absent],
                   Tail(ops))

Batch(ops) ==
  /\ Call([op |-> "batch", ops |-> ops])
  /\ kv' = ApplyOps(kv, ops)
  /\ UNCHANGED it

IterPrefix(p) ==
  /\ Call([op |-> "iterprefix", p |-> p])
  /\ it' = [open |-> TRUE, items |-> Range(p), pos |-> 0]
  /\ UNCHANGED kv

IterStart(p, s) ==
  LET items == Range(p)
      pos == IF s = NoStart THEN 0 ELSE SeekPos(items, s)
      ni == [open |-> TRUE, items |-> items, pos |-> pos]
  IN /\ it' = ni
     /\ Call([op |-> "iterstart", p |-> p, s |-> s, nostart |-> (s = NoStart),
              valid |-> Valid(ni), key |-> CurKey(ni), val |-> CurVal(ni)])
     /\ UNCHANGED kv

Next ==
  /\ it.open
  /\ LET ni == [it EXCEPT !.pos = Min(it.pos + 1, Len(it.items) + 1)]
     IN /\ it' = ni
        /\ Call([op |-> "next", ok |-> Valid(ni), key |-> CurKey(ni), val |-> CurVal(ni)])
  /\ UNCHANGED kv

Key ==
  /\ Valid(it)
  /\ Call([op |-> "key", key |-> CurKey(it)])
  /\ UNCHANGED <<kv, it>>

Value ==
  /\ Valid(it)
  /\ Call([op |-> "value", val |-> CurVal(it)])
  /\ UNCHANGED <<kv, it>>

Step ==
  \/ \E k \in Keys : Get(k) \/ Delete(k)
  \/ \E k \in Keys, v \in Vals : Set(k, v)
  \/ \E b \in Batches : Batch(b)
  \/ \E p \in Prefixes : IterPrefix(p)
  \/ \E p \in Prefixes, s \in Starts \cup {NoStart} : IterStart(p, s)
  \/ Next \/ Key \/ Value

Spec == Init /\ [][Step]_vars

-----------------------------------------------------------------------------
(* Design properties *)
TypeOK == /\ \A k \in Keys : kv[k].has \/ kv[k] = Absent
          /\ it.pos \in 0..(Len(it.items) + 1)

(* an iterator only ever shows keys of its range, in strictly ascending order *)
IterSorted == \A i, j \in 1..Len(it.items) : i < j => LexLess(it.items[i].k, it.items[j].k)

(* whatever the last call returned is a function of the map (read-your-writes) *)
ReadYourWrites ==
  /\ last.op = "get" => (last.found = kv[last.k].has /\ last.val = kv[last.k].v)
  /\ last.op = "iterstart" /\ last.valid =>
        /\ HasPrefix(last.key, last.p)
        /\ last.nostart \/ LexLeq(last.s, last.key)
        /\ \A k \in Stored : (HasPrefix(k, last.p) /\ (last.nostart \/ LexLeq(last.s, k))) => LexLeq(last.key, k)
  /\ last.op = "iterstart" /\ ~last.valid /\ ~last.nostart =>
        \A k \in Stored : ~(HasPrefix(k, last.p) /\ LexLeq(last.s, k))

View == <<kv, it>>
=============================================================================
