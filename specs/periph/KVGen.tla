------------------------------- MODULE KVGen -------------------------------
(* Behaviour export of KV.tla for the C20 differential replay: every explored *)
(* transition is printed with the whole call sequence that reaches it; each   *)
(* call carries the result the specification requires.                        *)
EXTENDS KV, Json, TLC

VARIABLE hist
GInit == Init /\ hist = <<>>
GNext == Step /\ hist' = Append(hist, last')
GView == View
Export == PrintT("EXPORT " \o ToJson(hist'))

(* byte strings: "a"=97 "b"=98 "c"=99 ":"=58 "0"=48 "1"=49 "2"=50 "3"=51 "`"=96 "x"=120 "y"=121 *)
A == <<97>>        AC == <<97, 58>>      AC1 == <<97, 58, 49>>   AC2 == <<97, 58, 50>>
B == <<98>>        BC1 == <<98, 58, 49>> C == <<99>>
AC0 == <<97, 58, 48>>  AC3 == <<97, 58, 51>>  BT == <<96>>  D == <<100>>
E == <<>>  X == <<120>>  Y == <<121>>

SetOps(ks, vs) == [o : {"set"}, k : ks, v : vs] \cup [o : {"del"}, k : ks, v : {E}]
SeqsUpTo(S, m) == UNION {[1..i -> S] : i \in 1..m}

\* quick: 5 keys sharing prefixes, empty value, start at / after (missing key) / before / beyond the range
KeysQ == {A, AC, AC1, AC2, B}
ValsQ == {E, X}
PrefQ == {AC, A, E}
StartQ == {AC1, AC3, A, B}
BatchQ == SeqsUpTo(SetOps({AC1}, {X, E}), 2)

\* thorough: the 7 keys of the design, more prefixes / starts, batches up to 3 ops
KeysT == {A, AC, AC1, AC2, B, BC1, C}
ValsT == {E, X, Y}
PrefT == {AC, A, E, B, D}
StartT == {AC1, AC0, AC3, A, B, BT, C, E}
BatchT == SeqsUpTo(SetOps({AC1, B}, {X, E}), 2) \cup SeqsUpTo(SetOps({AC1}, {X, Y}), 3)

\* mid (thorough tier only): the quick keys with all start classes and two-key batches, one more call
StartM == {AC1, AC0, AC3, A, B}
BatchM == SeqsUpTo(SetOps({AC1}, {X, E}) \cup SetOps({B}, {Y}), 2)

\* deep: small alphabet, long sequences (interleavings of writes with one open iterator)
KeysD == {AC, AC1, B}
ValsD == {E, X}
PrefD == {AC}
StartD == {AC1, A}
BatchD == SeqsUpTo(SetOps({AC1}, {X}), 2)
=============================================================================
