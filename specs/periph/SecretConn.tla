----------------------------- MODULE SecretConn -----------------------------
(* Specification of an established p2p secret connection                       *)
(* (p2p/connection/secret_connection.go) -- property C32.                      *)
(*                                                                             *)
(* Per direction d the sender's Write calls append to the byte stream          *)
(* written[d]; the stream travels in frames of at most FrameMax data bytes.    *)
(* The receiver's Read(buf) returns n bytes, 1 <= n <= min(|buf|, available),  *)
(* which are exactly the next n bytes of the stream (no loss, no duplication,  *)
(* no reordering, whatever the chunking).  plan[d] = k > 0 means the k-th      *)
(* frame of direction d is modified in transit: none of its bytes (nor any     *)
(* later byte) may ever be delivered, and the receiver gets an error instead.  *)
(* A clean end of stream (EOF) is reported only after every written byte has   *)
(* been delivered.  The handshake gives each side the other side's key.        *)
EXTENDS Integers, Sequences, FiniteSets, TLC

CONSTANTS Dirs,       \* directions, e.g. {"ab", "ba"}
          FrameMax    \* data bytes per frame (1024 in the code)

VARIABLES hs,         \* "init" | "ok" | "failed"
          written,    \* [Dirs -> Seq(byte)] everything handed to Write so far (incl. a running call)
          nd,         \* [Dirs -> Nat] number of bytes delivered to the reader
          nframes,    \* [Dirs -> Nat] frames produced so far
          plan,       \* [Dirs -> Nat] index of the frame that is modified in transit (0: none)
          bad,        \* [Dirs -> Int] stream offset where the modified frame's data starts (-1: not sent)
          wopen,      \* [Dirs -> Nat] length of the Write call in progress (0: none)
          closed,     \* [Dirs -> BOOLEAN] sender closed the direction
          eofd,       \* [Dirs -> BOOLEAN] reader saw the clean end of stream
          dead        \* a modification was detected (a Read returned an error): connection is over

vars == <<hs, written, nd, nframes, plan, bad, wopen, closed, eofd, dead>>

Min(a, b) == IF a < b THEN a ELSE b
CeilDiv(a, b) == (a + b - 1) \div b

InitWith(p) ==
  /\ hs = "init" /\ plan = p
  /\ written = [d \in Dirs |-> <<>>] /\ nd = [d \in Dirs |-> 0]
  /\ nframes = [d \in Dirs |-> 0] /\ bad = [d \in Dirs |-> -1]
  /\ wopen = [d \in Dirs |-> 0] /\ closed = [d \in Dirs |-> FALSE]
  /\ eofd = [d \in Dirs |-> FALSE] /\ dead = FALSE

(* Handshake. tamp = side whose incoming (sealed) handshake bytes were modified, or "none".  *)
(* ea/eb: "" or "err"; ra/rb: whose key side a / side b reports as RemotePubKey ("A","B","?") *)
Handshake(tamp, ea, eb, ra, rb) ==
  /\ hs = "init"
  /\ ea = "" => ra = "B"           \* a side that completes knows the peer's real key
  /\ eb = "" => rb = "A"
  /\ tamp = "none" => (ea = "" /\ eb = "")
  /\ tamp = "a" => ea # ""         \* modified ciphertext is detected by its receiver
  /\ tamp = "b" => eb # ""
  /\ hs' = IF ea = "" /\ eb = "" THEN "ok" ELSE "failed"
  /\ UNCHANGED <<written, nd, nframes, plan, bad, wopen, closed, eofd, dead>>

(* Write(data) is called by the sender of direction d *)
WriteBegin(d, data) ==
  /\ hs = "ok" /\ ~dead /\ ~closed[d] /\ wopen[d] = 0 /\ Len(data) >= 1
  /\ LET nf == CeilDiv(Len(data), FrameMax) IN
     /\ nframes' = [nframes EXCEPT ![d] = @ + nf]
     /\ bad' = IF bad[d] = -1 /\ plan[d] > nframes[d] /\ plan[d] <= nframes[d] + nf
                 THEN [bad EXCEPT ![d] = Len(written[d]) + (plan[d] - nframes[d] - 1) * FrameMax]
                 ELSE bad
  /\ written' = [written EXCEPT ![d] = @ \o data]
  /\ wopen' = [wopen EXCEPT ![d] = Len(data)]
  /\ UNCHANGED <<hs, nd, plan, closed, eofd, dead>>

(* ... and returns (n, err): the whole argument was accepted *)
WriteEnd(d, n, err) ==
  /\ hs = "ok" /\ ~dead /\ wopen[d] > 0
  /\ err = "" /\ n = wopen[d]
  /\ wopen' = [wopen EXCEPT ![d] = 0]
  /\ UNCHANGED <<hs, written, nd, nframes, plan, bad, closed, eofd, dead>>

Close(d) ==
  /\ hs = "ok" /\ ~dead /\ wopen[d] = 0 /\ ~closed[d]
  /\ closed' = [closed EXCEPT ![d] = TRUE]
  /\ UNCHANGED <<hs, written, nd, nframes, plan, bad, wopen, eofd, dead>>

Limit(d) == IF bad[d] = -1 THEN Len(written[d]) ELSE bad[d]
Avail(d) == Limit(d) - nd[d]

(* Read(buf) with |buf| = buflen returned (n, nil) and buf[:n] = data *)
ReadOk(d, buflen, n, data) ==
  /\ hs = "ok" /\ ~dead /\ ~eofd[d]
  /\ buflen >= 1 /\ n >= 1 /\ n <= Min(buflen, Avail(d))
  /\ Len(data) = n
  /\ data = SubSeq(written[d], nd[d] + 1, nd[d] + n)
  /\ nd' = [nd EXCEPT ![d] = @ + n]
  /\ UNCHANGED <<hs, written, nframes, plan, bad, wopen, closed, eofd, dead>>

(* Read returned (0, EOF): only after a clean close with everything delivered *)
ReadEof(d) ==
  /\ hs = "ok" /\ ~dead /\ ~eofd[d]
  /\ closed[d] /\ bad[d] = -1 /\ nd[d] = Len(written[d])
  /\ eofd' = [eofd EXCEPT ![d] = TRUE]
  /\ UNCHANGED <<hs, written, nd, nframes, plan, bad, wopen, closed, dead>>

(* Read returned an error (n bytes, still the right ones, may accompany it): only when a *)
(* modified frame is under way                                                          *)
ReadErr(d, n, data) ==
  /\ hs = "ok" /\ ~dead /\ ~eofd[d]
  /\ bad[d] # -1
  /\ n >= 0 /\ n <= Avail(d) /\ Len(data) = n
  /\ data = SubSeq(written[d], nd[d] + 1, nd[d] + n)
  /\ nd' = [nd EXCEPT ![d] = @ + n]
  /\ dead' = TRUE
  /\ UNCHANGED <<hs, written, nframes, plan, bad, wopen, closed, eofd>>

(* End of an execution in which everybody ran to completion: every direction was either  *)
(* read to its clean end, or the connection died on a detected modification.             *)
Complete == hs = "failed" \/ dead \/ \A d \in Dirs : eofd[d]

-----------------------------------------------------------------------------
(* Bounded instance for checking the specification itself *)
CONSTANTS Bytes, MaxLen, MaxTotal, MaxBuf, MaxPlan

BSeq == UNION {[1..k -> Bytes] : k \in 1..MaxLen}
Init == \E p \in [Dirs -> 0..MaxPlan] : InitWith(p)
Next ==
  \/ \E t \in {"none", "a", "b"}, ea, eb \in {"", "err"} : Handshake(t, ea, eb, "B", "A")
  \/ \E d \in Dirs, data \in BSeq : Len(written[d]) + Len(data) <= MaxTotal /\ WriteBegin(d, data)
  \/ \E d \in Dirs : WriteEnd(d, wopen[d], "") \/ Close(d) \/ ReadEof(d)
  \/ \E d \in Dirs, b \in 1..MaxBuf, n \in 1..MaxBuf :
        ReadOk(d, b, n, SubSeq(written[d], nd[d] + 1, nd[d] + n))
  \/ \E d \in Dirs, n \in 0..MaxBuf : ReadErr(d, n, SubSeq(written[d], nd[d] + 1, nd[d] + n))
Spec == Init /\ [][Next]_vars

TypeOK == /\ hs \in {"init", "ok", "failed"}
          /\ \A d \in Dirs : /\ nd[d] \in 0..Len(written[d]) /\ bad[d] \in -1..Len(written[d])
                             /\ wopen[d] \in 0..Len(written[d])
(* nothing from the modified frame on is ever delivered *)
TamperStops == \A d \in Dirs : bad[d] # -1 => nd[d] <= bad[d]
(* a reader that saw the clean end got every byte, and nothing was modified under way *)
NoLoss == \A d \in Dirs : eofd[d] => (nd[d] = Len(written[d]) /\ bad[d] = -1 /\ closed[d])
(* the modified frame starts on a frame boundary of some Write call and inside the stream *)
BadInStream == \A d \in Dirs : bad[d] # -1 => (plan[d] > 0 /\ plan[d] <= nframes[d] /\ bad[d] < Len(written[d]))
(* a sent modification is never silently survived: the execution cannot complete without error *)
Detected == (hs = "ok" /\ ~dead /\ \E d \in Dirs : bad[d] # -1) => ~(\A d \in Dirs : eofd[d])
=============================================================================
