----------------------------- MODULE StoreCache -----------------------------
(* Specification of database.Store (database/store.go, store_checkpoint.go,   *)
(* cache.go) as seen by its callers: persistent records plus one cache per    *)
(* record kind.  Property C21: the caches are transparent -- every read       *)
(* through the store returns what a cache-less read of the records returns    *)
(* (ReadThrough), whatever writes and reads happened before; in particular a  *)
(* read never changes what later reads return.                                *)
(*                                                                            *)
(* Records                                                                    *)
(*   hdr[b]     header of block b: -1 absent, else the number of supLinks the *)
(*              stored header carries (the only part of a header that can     *)
(*              change under the same hash)                                   *)
(*   txs[b]     transactions of b stored                                      *)
(*   hashes[h]  block hashes saved at height h, in save order                 *)
(*   main[h]    main-chain block at height h ("none" if unset)                *)
(*   cp[b]      checkpoint record of block b: -1 absent, else its status      *)
(*   tip        block of the stored chain status ("none" if unset)            *)
(* Caches hold, per key, either nothing or a copy of the record (+ the        *)
(* "empty list" answer for hashes).  A write drops the cache entries of the   *)
(* keys it writes.  Reads fill the cache.                                     *)
EXTENDS Integers, Sequences, FiniteSets

CONSTANTS Blocks,      \* block identities in key order (a sequence): Blocks[i] sorts before Blocks[j] for i < j among equal heights
          HeightOf,    \* [block -> height]
          Heights,
          SupVariants, \* numbers of supLinks a saved header may carry
          Statuses,    \* checkpoint statuses
          CpLists,     \* set of sequences of [b, st] given to SaveCheckpoints
          MainLists,   \* set of sequences of blocks given to SaveChainStatus as main-chain headers
          CpBlocks,    \* blocks that may have checkpoints
          Resave,      \* SaveBlock may be repeated for a stored block (once more)
          ReadOps,     \* which read operations are explored
          MaxOps

BlockSet == {Blocks[i] : i \in 1..Len(Blocks)}

VARIABLES hdr, txs, hashes, main, cp, tip,        \* records
          cHdr, cTxs, cHashes, cMain, cCp,        \* caches: cached? per key
          n, last

recs == <<hdr, txs, hashes, main, cp, tip>>
caches == <<cHdr, cTxs, cHashes, cMain, cCp>>
vars == <<recs, caches, n, last>>

Init == /\ hdr = [b \in BlockSet |-> -1] /\ txs = [b \in BlockSet |-> FALSE]
        /\ hashes = [h \in Heights |-> <<>>] /\ main = [h \in Heights |-> "none"]
        /\ cp = [b \in BlockSet |-> -1] /\ tip = "none"
        /\ cHdr = [b \in BlockSet |-> FALSE] /\ cTxs = [b \in BlockSet |-> FALSE]
        /\ cHashes = [h \in Heights |-> FALSE] /\ cMain = [h \in Heights |-> FALSE]
        /\ cCp = [b \in BlockSet |-> FALSE]
        /\ n = 0 /\ last = [op |-> "init"]

Call(c) == n < MaxOps /\ n' = n + 1 /\ last' = c
Count(q, x) == Cardinality({i \in 1..Len(q) : q[i] = x})

-----------------------------------------------------------------------------
(* cache-less reads of the records: the reference results *)
Err == [ok |-> FALSE]
RHeader(b) == IF hdr[b] = -1 THEN Err ELSE [ok |-> TRUE, sl |-> hdr[b]]
RTxs(b) == [ok |-> txs[b]]
RBlock(b) == IF hdr[b] = -1 \/ ~txs[b] THEN Err ELSE [ok |-> TRUE, sl |-> hdr[b]]
RHashes(h) == [ok |-> TRUE, list |-> hashes[h]]
RMain(h) == IF main[h] = "none" THEN Err ELSE [ok |-> TRUE, b |-> main[h]]
(* a checkpoint as the store returns it: the record merged with the supLinks of the block's header *)
Merged(b) == [b |-> b, st |-> cp[b], sl |-> hdr[b]]
RCheckpoint(b) == IF hdr[b] = -1 \/ cp[b] = -1 THEN Err ELSE [ok |-> TRUE, c |-> Merged(b)]
(* checkpoints in key order (height, then block order) *)
CpSeq(S) == LET idx == {i \in 1..Len(Blocks) : Blocks[i] \in S /\ cp[Blocks[i]] # -1}
                RECURSIVE Build(_)
                Build(I) == IF I = {} THEN <<>>
                            ELSE LET m == CHOOSE i \in I : \A j \in I : i <= j IN <<Blocks[m]>> \o Build(I \ {m})
            IN Build(idx)
RByHeight(h) == LET q == CpSeq({b \in BlockSet : HeightOf[b] = h})
                IN IF \E i \in 1..Len(q) : hdr[q[i]] = -1 THEN Err
                   ELSE [ok |-> TRUE, list |-> [i \in 1..Len(q) |-> Merged(q[i])]]
(* CheckpointsFromNode(height, hash of b): all checkpoints at or after b's key; the first one is returned as stored *)
(* (no supLinks merged), the following ones merged                                                                *)
After(b) == LET k == CHOOSE i \in 1..Len(Blocks) : Blocks[i] = b
            IN {Blocks[i] : i \in {j \in 1..Len(Blocks) : HeightOf[Blocks[j]] > HeightOf[b]
                                                          \/ (HeightOf[Blocks[j]] = HeightOf[b] /\ j >= k)}}
KeySorted(S) == \* order by (height, block order): Blocks is listed in that order already
  CpSeq(S)
RFromNode(b) == LET q == KeySorted(After(b))
                IN IF q = <<>> THEN Err
                   ELSE IF \E i \in 2..Len(q) : hdr[q[i]] = -1 THEN Err
                   ELSE [ok |-> TRUE, list |-> [i \in 1..Len(q) |->
                                                  IF i = 1 THEN [b |-> q[1], st |-> cp[q[1]], sl |-> 0] ELSE Merged(q[i])]]
RStatus == [ok |-> tip # "none", b |-> tip]

-----------------------------------------------------------------------------
(* writes *)
SaveBlock(b, v) ==
  /\ IF hdr[b] = -1 /\ ~txs[b] THEN TRUE ELSE Resave /\ txs[b] /\ Count(hashes[HeightOf[b]], b) < 2
  /\ Call([op |-> "saveblock", b |-> b, sl |-> v])
  /\ hdr' = [hdr EXCEPT ![b] = v] /\ txs' = [txs EXCEPT ![b] = TRUE]
  /\ hashes' = [hashes EXCEPT ![HeightOf[b]] = Append(@, b)]
  \* the new list of hashes is computed from a read of the old one through the store: fills, then drops, that entry
  /\ cHashes' = [cHashes EXCEPT ![HeightOf[b]] = FALSE]
  \* a repeated save changes the stored header: its cache entry (and the one of the transactions) must not survive
  /\ cHdr' = [cHdr EXCEPT ![b] = FALSE] /\ cTxs' = [cTxs EXCEPT ![b] = FALSE]
  /\ UNCHANGED <<main, cp, tip, cMain, cCp>>

SaveBlockHeader(b, v) ==
  /\ Call([op |-> "saveheader", b |-> b, sl |-> v])
  /\ hdr' = [hdr EXCEPT ![b] = v]
  /\ cHdr' = [cHdr EXCEPT ![b] = FALSE]
  /\ UNCHANGED <<txs, hashes, main, cp, tip, cTxs, cHashes, cMain, cCp>>

SaveCheckpoints(cs) ==
  /\ Call([op |-> "savecheckpoints", cs |-> cs])
  /\ cp' = [b \in BlockSet |-> LET I == {i \in 1..Len(cs) : cs[i].b = b}
                                 IN IF I = {} THEN cp[b] ELSE cs[CHOOSE i \in I : \A j \in I : j <= i].st]
  /\ cCp' = [b \in BlockSet |-> IF \E i \in 1..Len(cs) : cs[i].b = b THEN FALSE ELSE cCp[b]]
  /\ UNCHANGED <<hdr, txs, hashes, main, tip, cHdr, cTxs, cHashes, cMain>>

SaveChainStatus(t, ms) ==
  /\ Call([op |-> "savechainstatus", b |-> t, ms |-> ms])
  /\ tip' = t
  /\ main' = [h \in Heights |-> LET I == {i \in 1..Len(ms) : HeightOf[ms[i]] = h}
                                 IN IF I = {} THEN main[h] ELSE ms[CHOOSE i \in I : \A j \in I : j <= i]]
  /\ cMain' = [h \in Heights |-> IF \E i \in 1..Len(ms) : HeightOf[ms[i]] = h THEN FALSE ELSE cMain[h]]
  /\ UNCHANGED <<hdr, txs, hashes, cp, cHdr, cTxs, cHashes, cCp>>

(* reads: the result is the cache-less read; the cache entry of a successful read is filled *)
Read(c, res) == Call([op |-> c.op, b |-> c.b, h |-> c.h, res |-> res]) /\ UNCHANGED recs

GetHeader(b) == /\ "getheader" \in ReadOps /\ Read([op |-> "getheader", b |-> b, h |-> 0], RHeader(b))
                /\ cHdr' = [cHdr EXCEPT ![b] = @ \/ hdr[b] # -1] /\ UNCHANGED <<cTxs, cHashes, cMain, cCp>>
BlockExist(b) == /\ "blockexist" \in ReadOps /\ Read([op |-> "blockexist", b |-> b, h |-> 0], [ok |-> hdr[b] # -1])
                 /\ cHdr' = [cHdr EXCEPT ![b] = @ \/ hdr[b] # -1] /\ UNCHANGED <<cTxs, cHashes, cMain, cCp>>
GetTxs(b) == /\ "gettxs" \in ReadOps /\ Read([op |-> "gettxs", b |-> b, h |-> 0], RTxs(b))
             /\ cTxs' = [cTxs EXCEPT ![b] = @ \/ txs[b]] /\ UNCHANGED <<cHdr, cHashes, cMain, cCp>>
GetBlock(b) == /\ "getblock" \in ReadOps /\ Read([op |-> "getblock", b |-> b, h |-> 0], RBlock(b))
               /\ cHdr' = [cHdr EXCEPT ![b] = @ \/ hdr[b] # -1]
               /\ cTxs' = [cTxs EXCEPT ![b] = @ \/ (hdr[b] # -1 /\ txs[b])] /\ UNCHANGED <<cHashes, cMain, cCp>>
GetHashes(h) == /\ "gethashes" \in ReadOps /\ Read([op |-> "gethashes", b |-> "none", h |-> h], RHashes(h))
                /\ cHashes' = [cHashes EXCEPT ![h] = TRUE] /\ UNCHANGED <<cHdr, cTxs, cMain, cCp>>
GetMain(h) == /\ "getmain" \in ReadOps /\ Read([op |-> "getmain", b |-> "none", h |-> h], RMain(h))
              /\ cMain' = [cMain EXCEPT ![h] = @ \/ main[h] # "none"] /\ UNCHANGED <<cHdr, cTxs, cHashes, cCp>>
GetCheckpoint(b) == /\ "getcheckpoint" \in ReadOps /\ Read([op |-> "getcheckpoint", b |-> b, h |-> 0], RCheckpoint(b))
                    /\ cHdr' = [cHdr EXCEPT ![b] = @ \/ hdr[b] # -1]
                    /\ cCp' = [cCp EXCEPT ![b] = @ \/ (hdr[b] # -1 /\ cp[b] # -1)] /\ UNCHANGED <<cTxs, cHashes, cMain>>
HdrFill(S) == [b \in BlockSet |-> cHdr[b] \/ (b \in S /\ hdr[b] # -1)]
GetByHeight(h) == /\ "getbyheight" \in ReadOps /\ Read([op |-> "getbyheight", b |-> "none", h |-> h], RByHeight(h))
                  /\ cHdr' = HdrFill({b \in BlockSet : HeightOf[b] = h /\ cp[b] # -1}) /\ UNCHANGED <<cTxs, cHashes, cMain, cCp>>
GetFromNode(b) == /\ "getfromnode" \in ReadOps /\ Read([op |-> "getfromnode", b |-> b, h |-> 0], RFromNode(b))
                  /\ LET q == CpSeq(After(b)) IN cHdr' = HdrFill({q[i] : i \in 2..Len(q)})
                  /\ UNCHANGED <<cTxs, cHashes, cMain, cCp>>
GetStatus == /\ "getstatus" \in ReadOps /\ Read([op |-> "getstatus", b |-> "none", h |-> 0], RStatus) /\ UNCHANGED caches

Next == \/ \E b \in BlockSet, v \in SupVariants : SaveBlock(b, v) \/ SaveBlockHeader(b, v)
        \/ \E cs \in CpLists : SaveCheckpoints(cs)
        \/ \E ms \in MainLists : SaveChainStatus(ms[Len(ms)], ms)
        \/ \E b \in BlockSet : GetHeader(b) \/ BlockExist(b) \/ GetTxs(b) \/ GetBlock(b)
        \/ \E h \in Heights : GetHashes(h) \/ GetMain(h) \/ GetByHeight(h)
        \/ \E b \in CpBlocks : GetCheckpoint(b) \/ GetFromNode(b)
        \/ GetStatus

Spec == Init /\ [][Next]_vars

-----------------------------------------------------------------------------
(* Design properties *)
TypeOK == /\ \A b \in BlockSet : hdr[b] \in {-1} \cup SupVariants /\ cp[b] \in {-1} \cup Statuses
          /\ \A h \in Heights : main[h] \in BlockSet \cup {"none"}
(* only existing records are cached (a failed read caches nothing) *)
CacheSound == /\ \A b \in BlockSet : (cHdr[b] => hdr[b] # -1) /\ (cTxs[b] => txs[b]) /\ (cCp[b] => cp[b] # -1)
              /\ \A h \in Heights : cMain[h] => main[h] # "none"
(* reads do not change the records: action property *)
ReadsPure == [][last'.op \in {"getheader", "blockexist", "gettxs", "getblock", "gethashes", "getmain",
                              "getcheckpoint", "getbyheight", "getfromnode", "getstatus"} => UNCHANGED recs]_vars
(* a saved header is what the next header read returns *)
ReadYourWrites == last.op = "saveheader" => RHeader(last.b) = [ok |-> TRUE, sl |-> last.sl]

View == <<recs, caches>>
=============================================================================
