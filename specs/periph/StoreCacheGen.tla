---------------------------- MODULE StoreCacheGen ----------------------------
(* Behaviour export of StoreCache.tla: every explored transition with the call *)
(* sequence reaching it; every read carries the result a cache-less read of    *)
(* the records gives.                                                          *)
EXTENDS StoreCache, Json, TLC

VARIABLE hist
GInit == Init /\ hist = <<>>
GNext == Next /\ hist' = Append(hist, last')
GView == View
(* After a behaviour that ends in a write the driver probes the store with every cached   *)
(* kind of read; Probe lists them with the results the records require (this is what makes *)
(* a missing invalidation visible: cached read ... write, then the probe).                 *)
R(op, b, h, res) == [op |-> op, b |-> b, h |-> h, res |-> res]
Probe == <<{R("getheader", b, 0, RHeader(b)) : b \in BlockSet},
           {R("gettxs", b, 0, RTxs(b)) : b \in BlockSet},
           {R("gethashes", "none", h, RHashes(h)) : h \in Heights},
           {R("getmain", "none", h, RMain(h)) : h \in Heights},
           {R("getcheckpoint", b, 0, RCheckpoint(b)) : b \in CpBlocks},
           {R("getbyheight", "none", h, RByHeight(h)) : h \in Heights}>>
IsWrite(op) == op \in {"saveblock", "saveheader", "savecheckpoints", "savechainstatus"}
Export == PrintT("EXPORT " \o ToJson([calls |-> hist', probe |-> IF IsWrite(last'.op) THEN Probe' ELSE <<>>]))
GReadsPure == [][last'.op \in {"getheader", "blockexist", "gettxs", "getblock", "gethashes", "getmain",
                               "getcheckpoint", "getbyheight", "getfromnode", "getstatus"} => UNCHANGED recs]_<<vars, hist>>

AllReads == {"getheader", "blockexist", "gettxs", "getblock", "gethashes", "getmain",
             "getcheckpoint", "getbyheight", "getfromnode", "getstatus"}
C(b, st) == [b |-> b, st |-> st]

\* quick: two competing blocks at height 1
BlocksQ == <<"B1", "B2">>
HeightQ == [b \in {"B1", "B2"} |-> 1]
CpListsQ == {<<C("B1", 0)>>, <<C("B1", 2)>>, <<C("B2", 1)>>, <<C("B1", 1), C("B2", 0)>>}
MainListsQ == {<<"B1">>, <<"B2">>}
ReadsQ == AllReads \ {"blockexist", "getblock"}

\* thorough: three blocks on two heights
BlocksT == <<"B1", "B2", "B3">>
HeightT == [b \in {"B1", "B2", "B3"} |-> IF b = "B3" THEN 2 ELSE 1]
CpListsT == {<<C("B1", 0)>>, <<C("B1", 2)>>, <<C("B2", 1)>>, <<C("B3", 0)>>, <<C("B1", 1), C("B3", 3)>>, <<C("B2", 0), C("B1", 3)>>}
MainListsT == {<<"B1">>, <<"B2">>, <<"B1", "B3">>, <<"B2", "B3">>}

\* reorg (quick and thorough): two competing blocks on each of two heights; SaveChainStatus with one and with two
\* main-chain headers (both orders), so that a two-block reorganisation re-points both heights after warm reads
BlocksR == <<"B1", "B2", "B3", "B4">>
HeightR == [b \in {"B1", "B2", "B3", "B4"} |-> IF b \in {"B3", "B4"} THEN 2 ELSE 1]
CpListsR == {<<C("B1", 0)>>}
MainListsR == {<<"B1", "B3">>, <<"B2", "B4">>, <<"B4", "B2">>, <<"B2">>, <<"B3">>}
ReadsR == {"getmain", "getstatus"}

\* deep: one block, one checkpoint, long alternations of saves and reads
BlocksD == <<"B1">>
HeightD == [b \in {"B1"} |-> 1]
CpListsD == {<<C("B1", 0)>>, <<C("B1", 2)>>}
MainListsD == {<<"B1">>}
ReadsD == {"getheader", "gethashes", "getmain", "getcheckpoint", "getbyheight", "getfromnode"}
=============================================================================
