--------------------------- MODULE TraceBanScore ---------------------------
(* Trace validation for C35: seeded random call sequences executed by the     *)
(* real DynamicBanScore (explicit-time entry points) are judged by            *)
(* BanScore.tla.  One ndjson record per call:                                 *)
(*   [ev : "start" | "inc" | "int" | "reset", d, pa, ta, r]                   *)
(* "start" begins a new sequence on a zero-value score at clock T0.           *)
(* A result inside the admitted interval is accepted silently.  A result that *)
(* falls into one of the two named deviation classes of BanScore.tla is       *)
(* reported with a NOTE line (it is a violation of the rule; the trace goes   *)
(* on so that the rest of the sequence is still judged).  Any other result    *)
(* stops the validation at that record (high-water mark).                     *)
EXTENDS BanScore, Json, TLC

VARIABLE l
Trace == ndJsonDeserialize("trace.ndjson")
tvars == <<vars, l>>
Cur == Trace[l]
Is(e) == l <= Len(Trace) /\ Cur.ev = e

TInit == Init /\ l = 1

Note(class) == PrintT("NOTE dev " \o ToString(l) \o " " \o class)

Judge(o, r) ==
  \/ o.rlo <= r /\ r <= o.rhi
  \/ /\ o.rhi < r /\ r <= o.thi
     /\ Note("subunit-transient-not-decayed")
  \/ /\ o.op = "inc" /\ o.ta = 0 /\ o.thi < r /\ o.slo <= r /\ r <= o.shi
     /\ Note("transient0:returns-undecayed-score")

TInc == /\ Is("inc") /\ Increase(Cur.d, Cur.pa, Cur.ta) /\ Judge(out', Cur.r) /\ l' = l + 1
TInt == /\ Is("int") /\ Read(Cur.d) /\ Judge(out', Cur.r) /\ l' = l + 1
TReset == /\ Is("reset") /\ Reset /\ l' = l + 1
TStart == /\ Is("start")
          /\ p' = 0 /\ lo' = 0 /\ hi' = 0 /\ hiT' = 0 /\ fz' = FALSE /\ last' = 0 /\ now' = T0 /\ n' = 0
          /\ out' = [op |-> "init"]
          /\ l' = l + 1

TNext == TInc \/ TInt \/ TReset \/ TStart
TView == <<View, l>>
NotDone == l <= Len(Trace)
ASSUME TLCSet(2, 0)
HW == IF l > TLCGet(2) THEN TLCSet(2, l) ELSE TRUE
Rejected == PrintT("NOTE hw " \o ToString(TLCGet(2))) /\ TRUE
=============================================================================
