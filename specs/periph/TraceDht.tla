------------------------------ MODULE TraceDht ------------------------------
(* Judgement of the real routing table (p2p/discover/dht/table.go) for C34.   *)
(* The Go driver replays TLC-generated operation sequences on a real Table    *)
(* and records every distinct table state it observes:                        *)
(*   [id, self, cap, snap : [count, buckets : Seq([idx, e : Seq([id, dist]),  *)
(*                                                 r : Seq([id, dist])])]]     *)
(* TLC evaluates the property (DhtProps) on every recorded state and names    *)
(* the broken clause in a NOTE line.  (The orchestrator then attributes each  *)
(* broken state to the recorded operation that led into it from a state TLC   *)
(* found intact.)                                                             *)
EXTENDS DhtProps, Json, TLC

VARIABLES l, nbroken
Trace == ndJsonDeserialize("trace.ndjson")
Cur == Trace[l]

BucketIdx(s) == {s.buckets[i].idx : i \in 1..Len(s.buckets)}
Entries(s) == [b \in BucketIdx(s) |-> LET i == CHOOSE j \in 1..Len(s.buckets) : s.buckets[j].idx = b
                                       IN s.buckets[i].e]
Verdict(ev) == Broken(Entries(ev.snap), ev.cap, ev.self, ev.snap.count)

TInit == l = 1 /\ nbroken = 0
TNext == /\ l <= Len(Trace)
         /\ LET v == Verdict(Cur) IN
            /\ (v # "" => PrintT("NOTE broken " \o ToString(Cur.id) \o " " \o v))
            /\ nbroken' = IF v # "" THEN nbroken + 1 ELSE nbroken
         /\ l' = l + 1
(* "violated" by the state that has judged the whole file: completion witness *)
NotDone == l <= Len(Trace)
=============================================================================
