----------------------------- MODULE TraceEvent -----------------------------
(* Trace validation of concurrent executions of the real event.Dispatcher.    *)
(* The Go driver logs, ordered by one atomic sequence counter:                *)
(*   begin/end of every Post, Unsubscribe and Stop call (with thread id),     *)
(*   every value a reader took out of a subscription channel ("recv"),        *)
(*   "subscribe" (done sequentially before the threads start), "reset".       *)
(* The internal steps of Event.tla (PostBegin, PostDeliver, UnsubDel,         *)
(* UnsubClose, Stop) are silent: TLC searches for a placement of them between *)
(* each call's begin and end that explains every logged result.               *)
EXTENDS Event, Json, Integers

VARIABLES l, pend
Trace == ndJsonDeserialize("trace.ndjson")
Threads == Callers \cup {"u1", "u2", "u3", "stopper"}
None == [op |-> "none", t |-> "", id |-> 0, s |-> "", phase |-> ""]

tvars == <<vars, l, pend>>

TInit == Init /\ l = 1 /\ pend = [th \in Threads |-> None]

Cur == Trace[l]
Is(e) == l <= Len(Trace) /\ Cur.ev = e

(* Stop holds the dispatcher lock from its first close to its end: no snapshot, no del, no subscribe meanwhile *)
Stopping == \E th \in Threads : pend[th] # None /\ pend[th].op = "stop" /\ pend[th].phase = "closing"

TBegin == /\ Is("begin") /\ pend[Cur.th] = None
          /\ pend' = [pend EXCEPT ![Cur.th] = [op |-> Cur.op, t |-> Cur.t, id |-> Cur.id, s |-> Cur.s, phase |-> "called"]]
          /\ l' = l + 1 /\ UNCHANGED vars

TPostBegin(c) == /\ pend[c].op = "post" /\ pend[c].phase = "called" /\ ~Stopping
                 /\ PostBegin(c, pend[c].t, pend[c].id)
                 /\ pend' = [pend EXCEPT ![c].phase = IF stopped THEN "failed" ELSE "begun"]
                 /\ UNCHANGED l
TPostDeliver(c) == /\ pend[c].op = "post" /\ pend[c].phase = "begun"
                   /\ PostDeliver(c) /\ UNCHANGED <<l, pend>>
TEndPost == /\ Is("end") /\ Cur.op = "post"
            /\ LET c == Cur.th IN
               /\ \/ pend[c].phase = "failed" /\ Cur.err = "closed" /\ UNCHANGED vars
                  \/ pend[c].phase = "begun" /\ Cur.err = "nil" /\ PostEnd(c)
               /\ pend' = [pend EXCEPT ![c] = None]
            /\ l' = l + 1

TUnsubDel(th) == /\ pend[th].op = "unsub" /\ pend[th].phase = "called" /\ ~Stopping
                 /\ UnsubDel(pend[th].s)
                 /\ pend' = [pend EXCEPT ![th].phase = "deleted"] /\ UNCHANGED l
TUnsubClose(th) == /\ pend[th].op = "unsub" /\ pend[th].phase = "deleted"
                   /\ UnsubClose(pend[th].s)
                   /\ pend' = [pend EXCEPT ![th].phase = "closed"] /\ UNCHANGED l
TStopClose(th) == /\ pend[th].op = "stop" /\ pend[th].phase \in {"called", "closing"}
                  /\ \E s \in Subs : StopCloseOne(s)
                  /\ pend' = [pend EXCEPT ![th].phase = "closing"] /\ UNCHANGED l
TStop(th) == /\ pend[th].op = "stop" /\ pend[th].phase \in {"called", "closing"}
             /\ Stop
             /\ pend' = [pend EXCEPT ![th].phase = "closed"] /\ UNCHANGED l
TEndOther == /\ Is("end") /\ Cur.op \in {"unsub", "stop"}
             /\ pend[Cur.th].phase = "closed"
             /\ pend' = [pend EXCEPT ![Cur.th] = None]
             /\ l' = l + 1 /\ UNCHANGED vars

TRecv == /\ Is("recv")
         /\ LET s == Cur.s IN
            /\ IF Cur.r = "ev" THEN queue[s] # <<>> /\ Head(queue[s]) = Cur.id
                               ELSE queue[s] = <<>> /\ chClosed[s]
            /\ Recv(s)
         /\ l' = l + 1 /\ UNCHANGED pend

TSubscribe == /\ Is("subscribe")
              /\ Subscribe(Cur.s, {Cur.ts[i] : i \in 1..Len(Cur.ts)})
              /\ l' = l + 1 /\ UNCHANGED pend

TReset == /\ Is("reset") /\ \A th \in Threads : pend[th] = None
          /\ subm' = [t \in Types |-> <<>>] /\ stopped' = FALSE
          /\ st' = [s \in Subs |-> "new"] /\ stypes' = [s \in Subs |-> {}]
          /\ queue' = [s \in Subs |-> <<>>] /\ chClosed' = [s \in Subs |-> FALSE]
          /\ nposted' = 0 /\ inflight' = [c \in Callers |-> NoPost]
          /\ posted' = <<>> /\ got' = [s \in Subs |-> <<>>] /\ nrecv' = 0
          /\ must' = [s \in Subs |-> {}] /\ last' = [op |-> "init"]
          /\ l' = l + 1 /\ UNCHANGED pend

TNext == \/ TBegin \/ TEndPost \/ TEndOther \/ TRecv \/ TSubscribe \/ TReset
         \/ \E c \in Callers : TPostBegin(c) \/ TPostDeliver(c)
         \/ \E th \in Threads : TUnsubDel(th) \/ TUnsubClose(th) \/ TStop(th) \/ TStopClose(th)

TSpec == TInit /\ [][TNext]_tvars

TView == <<View, l, pend>>
(* "violated" by the state that has consumed the whole trace: acceptance witness *)
NotDone == l <= Len(Trace)
(* high-water mark of the consumed prefix, for diagnosing a rejection *)
ASSUME TLCSet(2, 0)
HW == IF l > TLCGet(2) THEN TLCSet(2, l) ELSE TRUE
Rejected == PrintT("NOTE hw " \o ToString(TLCGet(2))) /\ TRUE
=============================================================================
