-------------------------- MODULE TraceSecretConn --------------------------
(* Trace validation of executions of two real SecretConnections talking over  *)
(* in-memory pipes (harness/cmd/c32).  One line per event, ordered by an      *)
(* atomic sequence counter read before a call starts / after it returned:     *)
(*   reset   pab,pba : frame numbers modified in transit per direction (0: none)*)
(*   hs      hst ("none"|"a"|"b": whose incoming sealed handshake frame was   *)
(*           modified), ea, eb (error class per side), ra, rb (RemotePubKey)  *)
(*   wbegin  d, data           Write(data) is about to be called              *)
(*   wend    d, n, err         ... returned                                   *)
(*   wclose  d                 the sender closes its direction                *)
(*   read    d, buf, n, err ("" | "eof" | "err"), data = buf[:n]              *)
(*   end     st ("complete" | "stalled")                                      *)
(* Every line also carries tr / nr (see checks/tvlib.py).  After a detected   *)
(* modification (dead) or a failed handshake the rest of the trace is free.   *)
EXTENDS SecretConn, Json

VARIABLES l, sk
Trace == ndJsonDeserialize("trace.ndjson")
tvars == <<vars, l, sk>>
Cur == Trace[l]
Is(e) == l <= Len(Trace) /\ Cur.ev = e
NoPlan == [d \in Dirs |-> 0]

TInit == InitWith(NoPlan) /\ l = 1 /\ sk = FALSE

Step == l' = l + 1 /\ sk' = FALSE

TReset == /\ Is("reset")
          /\ hs' = "init" /\ plan' = [d \in Dirs |-> IF d = "ab" THEN Cur.pab ELSE Cur.pba]
          /\ written' = [d \in Dirs |-> <<>>] /\ nd' = [d \in Dirs |-> 0]
          /\ nframes' = [d \in Dirs |-> 0] /\ bad' = [d \in Dirs |-> -1]
          /\ wopen' = [d \in Dirs |-> 0] /\ closed' = [d \in Dirs |-> FALSE]
          /\ eofd' = [d \in Dirs |-> FALSE] /\ dead' = FALSE
          /\ Step

(* abandon the current trace (always possible): jump to the next reset line *)
TSkip == /\ l <= Len(Trace) /\ Cur.ev # "reset"
         /\ hs' = "init" /\ plan' = NoPlan
         /\ written' = [d \in Dirs |-> <<>>] /\ nd' = [d \in Dirs |-> 0]
         /\ nframes' = [d \in Dirs |-> 0] /\ bad' = [d \in Dirs |-> -1]
         /\ wopen' = [d \in Dirs |-> 0] /\ closed' = [d \in Dirs |-> FALSE]
         /\ eofd' = [d \in Dirs |-> FALSE] /\ dead' = FALSE
         /\ l' = Cur.nr /\ sk' = TRUE

THandshake == Is("hs") /\ Handshake(Cur.hst, Cur.ea, Cur.eb, Cur.ra, Cur.rb) /\ Step
TWBegin == Is("wbegin") /\ WriteBegin(Cur.d, Cur.data) /\ Step
TWEnd   == Is("wend") /\ WriteEnd(Cur.d, Cur.n, Cur.err) /\ Step
TWClose == Is("wclose") /\ Close(Cur.d) /\ Step
TRead   == /\ Is("read")
           /\ \/ Cur.err = "" /\ ReadOk(Cur.d, Cur.buf, Cur.n, Cur.data)
              \/ Cur.err = "eof" /\ Cur.n = 0 /\ ReadEof(Cur.d)
              \/ Cur.err = "err" /\ ReadErr(Cur.d, Cur.n, Cur.data)
           /\ Step
(* once the connection is over nothing more is required of it *)
TFree   == /\ l <= Len(Trace) /\ Cur.ev \in {"wbegin", "wend", "wclose", "read"}
           /\ (dead \/ hs = "failed")
           /\ UNCHANGED vars /\ Step
TEnd    == /\ Is("end") /\ Cur.st = "complete" /\ Complete
           /\ UNCHANGED vars /\ Step

TNext == TReset \/ TSkip \/ THandshake \/ TWBegin \/ TWEnd \/ TWClose \/ TRead \/ TFree \/ TEnd
TSpec == TInit /\ [][TNext]_tvars
TView == <<vars, l, sk>>

(* per-trace high-water mark of the explained prefix (TLC register 2) *)
NTr == Trace[Len(Trace)].tr
ASSUME TLCSet(2, [i \in 1..NTr |-> 0])
HW == (~sk /\ l > 1) =>
        LET t == Trace[l - 1].tr IN
        IF TLCGet(2)[t] < l - 1 THEN TLCSet(2, [TLCGet(2) EXCEPT ![t] = l - 1]) ELSE TRUE
Report == PrintT("NOTE hwmap " \o ToJson(TLCGet(2)))
=============================================================================
