------------------------------- MODULE TxPool -------------------------------
(* Specification of the mempool bookkeeping (protocol/txpool.go) -- C22.      *)
(*                                                                            *)
(* The property fixes the two indexes completely as functions of which        *)
(* transactions are pooled and which are orphans:                             *)
(*   output index  = spendable (non-retirement) outputs of pooled txs;        *)
(*   orphan index  : byPrev[o] contains t  <=>  t is an orphan and o is an    *)
(*                   input of t that is neither confirmed nor in the output   *)
(*                   index (an output t "still waits for");                   *)
(*   no tx is both pooled and orphan; no orphan has all its inputs available  *)
(*   when a call returns (promotion happens at once, transitively).           *)
(* So the state is (pool, orphans in age order); the indexes are the derived  *)
(* operators OutIdx / ByPrev, which are what the replay compares with the     *)
(* maps of the real pool after every call.  The store's confirmed outputs     *)
(* are fixed during a behaviour.                                              *)
EXTENDS Naturals, Sequences, FiniteSets, TLC

CONSTANTS Txs,        \* transactions of the scenario (a subset of the universe below)
          InsOf,      \* [tx -> Seq(output)]  inputs, in order
          OutsOf,     \* [tx -> Seq(output)]  outputs, in order
          Retired,    \* outputs that are retirements (never spendable, never indexed)
          Confirmed   \* outputs the store reports as unspent

VARIABLES pool,       \* set of pooled txs
          oq,         \* orphans, oldest first (ExpireOrphan removes a prefix by age)
          amb,        \* an orphan was re-submitted while orphan: relative ages no longer determined by the model
          last        \* last call and its result

vars == <<pool, oq, amb, last>>

Range(s) == {s[i] : i \in 1..Len(s)}
Orphans == Range(oq)
InSet(t) == Range(InsOf[t])
Spendable(t) == Range(OutsOf[t]) \ Retired

(* the output index demanded by the property: output -> the pooled tx creating it *)
OutIdx(P) == UNION {{<<o, t>> : o \in Spendable(t)} : t \in P}
Indexed(P) == UNION {Spendable(t) : t \in P}
Available(o, P) == o \in Confirmed \/ o \in Indexed(P)
Missing(t, P) == {o \in InSet(t) : ~Available(o, P)}
(* the orphan index demanded by the property *)
ByPrev(P, O) == UNION {{<<o, t>> : o \in Missing(t, P)} : t \in O}

(* promotion to the fixpoint: every orphan whose inputs are all available joins the pool *)
RECURSIVE Promote(_, _)
Promote(P, O) == LET ready == {t \in O : Missing(t, P) = {}} IN
                 IF ready = {} THEN P ELSE Promote(P \cup ready, O \ ready)

Without(q, S) == SelectSeq(q, LAMBDA x : x \notin S)

Init == pool = {} /\ oq = <<>> /\ amb = FALSE /\ last = [op |-> "init"]

(* ProcessTransaction(t) for a tx that is not in the pool (Chain.ValidateTx filters those) *)
Submit(t) ==
  /\ t \notin pool
  /\ IF Missing(t, pool) # {}
       THEN /\ oq' = Append(Without(oq, {t}), t)          \* (re-)added as the youngest orphan
            /\ amb' = (amb \/ t \in Orphans)
            /\ pool' = pool
            /\ last' = [op |-> "submit", t |-> t, orphan |-> TRUE]
       ELSE LET P2 == Promote(pool \cup {t}, Orphans \ {t}) IN
            /\ pool' = P2
            /\ oq' = Without(oq, P2)
            /\ amb' = (amb /\ Without(oq, P2) # <<>>)
            /\ last' = [op |-> "submit", t |-> t, orphan |-> FALSE]

(* RemoveTransaction(t) *)
Remove(t) ==
  /\ t \in pool
  /\ pool' = pool \ {t}
  /\ last' = [op |-> "remove", t |-> t]
  /\ UNCHANGED <<oq, amb>>

(* ExpireOrphan(now) with `now` just after the expiry of the k-th oldest orphan *)
Expire(k) ==
  /\ k \in 1..Len(oq)
  /\ (k < Len(oq)) => ~amb
  /\ oq' = SubSeq(oq, k + 1, Len(oq))
  /\ amb' = (amb /\ k < Len(oq))
  /\ last' = [op |-> "expire", k |-> k, all |-> (k = Len(oq)), victims |-> {oq[i] : i \in 1..k}]
  /\ UNCHANGED pool

(* ExpireOrphan(now) with `now` before every expiry: nothing happens *)
ExpireNone ==
  /\ oq # <<>>
  /\ last' = [op |-> "expire", k |-> 0, all |-> FALSE, victims |-> {}]
  /\ UNCHANGED <<pool, oq, amb>>

Next == \/ \E t \in Txs : Submit(t) \/ Remove(t)
        \/ \E k \in 1..Len(oq) : Expire(k)
        \/ ExpireNone

Spec == Init /\ [][Next]_vars

(* what the replay compares with the real maps *)
Obs == [pool |-> pool, utxo |-> OutIdx(pool), orphans |-> Orphans, byprev |-> ByPrev(pool, Orphans)]

-----------------------------------------------------------------------------
(* The property, checked on the specification *)
Disjoint == pool \cap Orphans = {}
Promoted == \A t \in Orphans : Missing(t, pool) # {}
NoDupOrphan == \A i, j \in 1..Len(oq) : i # j => oq[i] # oq[j]
IndexExact == /\ \A p \in OutIdx(pool) : p[2] \in pool /\ p[1] \in Spendable(p[2])
              /\ \A t \in pool : \A o \in Spendable(t) : <<o, t>> \in OutIdx(pool)
NoDangling == \A p \in ByPrev(pool, Orphans) : p[2] \in Orphans /\ p[1] \in InSet(p[2]) /\ ~Available(p[1], pool)
EveryOrphanIndexed == \A t \in Orphans : \E p \in ByPrev(pool, Orphans) : p[2] = t

View == <<pool, oq, amb>>

-----------------------------------------------------------------------------
(* The universe of transactions used by the configurations.                  *)
(*   g0, g1 confirmed; a -> b -> c chain; e double-spends a0 with b;          *)
(*   d joins a1 and b0 (diamond: a -> b -> d, a -> d);                        *)
(*   f independent root with a retirement output fr;                          *)
(*   t / u spend one output of each root (two-parent orphans, both orders).   *)
UIns == [x \in {"a", "b", "c", "d", "e", "f", "t", "u"} |->
           CASE x = "a" -> <<"g0">>
             [] x = "b" -> <<"a0">>
             [] x = "c" -> <<"b0">>
             [] x = "d" -> <<"a1", "b0">>
             [] x = "e" -> <<"a0">>
             [] x = "f" -> <<"g1">>
             [] x = "t" -> <<"f0", "a1">>
             [] x = "u" -> <<"a1", "f0">>]
UOuts == [x \in {"a", "b", "c", "d", "e", "f", "t", "u"} |->
           CASE x = "a" -> <<"a0", "a1">>
             [] x = "b" -> <<"b0">>
             [] x = "c" -> <<"c0">>
             [] x = "d" -> <<"d0">>
             [] x = "e" -> <<"e0">>
             [] x = "f" -> <<"f0", "fr">>
             [] x = "t" -> <<"t0">>
             [] x = "u" -> <<"u0">>]
URetired == {"fr"}
UConfirmed == {"g0", "g1"}
=============================================================================
