----------------------------- MODULE TxPoolGen -----------------------------
(* Export wrapper of TxPool: every explored transition is printed with the    *)
(* call sequence that reaches it (each call with its expected result) and the *)
(* expected maps after the last call.                                         *)
EXTENDS TxPool, Json

VARIABLE hist
HInit == Init /\ hist = <<>>
HNext == Next /\ hist' = Append(hist, last')
HView == View
Export == PrintT("EXPORT " \o ToJson([calls |-> hist', obs |-> Obs']))
=============================================================================
