------------------------------ MODULE Standard ------------------------------
(* Standard program shapes: the builders (what a wallet emits) and the        *)
(* recognisers defined as "is the image of the builder", so that the two      *)
(* agree by construction:  IsX(p)  <=>  \E args : p = BuildX(args).            *)
(*   P2WPKH      0 <20-byte hash>            P2WSH   0 <32-byte hash>          *)
(*   register    FAIL "bcrp" <01> <contract>   (contract non-empty)           *)
(*   call        "bcrp" <32-byte hash>                                        *)
(* Pushes are canonical (PushData: shortest form for the length).             *)
EXTENDS VMParse

BCRP == <<98, 99, 114, 112>>          \* "bcrp"
OP_FAIL == 106
OP_TRUE == 81

P2WPKH(h) == <<OP_FALSE>> \o PushData(h)
P2WSH(h)  == <<OP_FALSE>> \o PushData(h)
Register(contract) == <<OP_FAIL>> \o PushData(BCRP) \o PushData(<<1>>) \o PushData(contract)
CallContract(h) == PushData(BCRP) \o PushData(h)
Retire(comment) == <<OP_FAIL>> \o (IF comment = <<>> THEN <<>> ELSE PushData(comment))
Coinbase == <<OP_TRUE>>
(* converted witness programs *)
P2PKHSig(h) == <<118, 171>> \o PushData(h) \o <<136, 174, 124, 172>>      \* DUP HASH160 <h> EQUALVERIFY TXSIGHASH SWAP CHECKSIG
P2SH(h) == <<118, 170>> \o PushData(h) \o <<136, 0, 124, 0, 192>>          \* DUP SHA3 <h> EQUALVERIFY 0 SWAP 0 CHECKPREDICATE
RECURSIVE PushAll(_, _)
PushAll(keys, k) == IF k > Len(keys) THEN <<>> ELSE PushData(keys[k]) \o PushAll(keys, k + 1)
(* m-of-n multisig: TXSIGHASH <key>... m n CHECKMULTISIG; valid iff 0 <= m <= n and (n > 0 => m > 0) *)
MultiSigOK(m, n) == m >= 0 /\ m <= n /\ (n > 0 => m > 0)
MultiSig(keys, m) == <<174>> \o PushAll(keys, 1) \o PushNum(m) \o PushNum(Len(keys)) \o <<173>>

(* ---- recognisers = images of the builders ---- *)
IsP2WPKH(p) == Len(p) = 22 /\ p = P2WPKH(SubSeq(p, 3, 22))
IsP2WSH(p)  == Len(p) = 34 /\ p = P2WSH(SubSeq(p, 3, 34))
IsStraightforward(p) == p = <<OP_TRUE>> \/ p = <<OP_FAIL>>
IsP2WScript(p) == IsP2WPKH(p) \/ IsP2WSH(p) \/ IsStraightforward(p)
IsCallContract(p) == Len(p) = 38 /\ p = CallContract(SubSeq(p, 7, 38))
(* the contract is whatever the instruction after the 8-byte header pushes; it must be pushed canonically *)
IsBCRP(p) == /\ Len(p) > 8
             /\ LET i == ParseOp(p, 8) IN
                i.ok /\ 8 + i.len = Len(p) /\ i.data # <<>> /\ p = Register(i.data)
(* the hash / contract carried by a standard program (second / fourth instruction) *)
HashOfStandard(p) == SubSeq(p, 3, Len(p))
ContractOf(p) == ParseOp(p, 8).data
ContractHashOf(p) == SubSeq(p, 7, 38)
=============================================================================
