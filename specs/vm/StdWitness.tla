----------------------------- MODULE StdWitness -----------------------------
(* C02 - outputs locked by the standard programs (pay-to-witness-pubkey-hash, *)
(* pay-to-witness-script-hash with a multisig redeem script, bare multisig)   *)
(* are spendable only with a matching witness.                                *)
(*                                                                           *)
(* Symbolic cryptography: keys are numbers (1..n committed, 0 an outsider),   *)
(* Sig(k, m) is THE signature of key k over message m (ed25519 is             *)
(* deterministic and assumed unforgeable), hashes are injective terms.        *)
(* Messages: "m" is the signature hash of this input in this transaction,     *)
(* "m2" the signature hash of something else; the message the VM computes is  *)
(* cm = "m" for the signed transaction and "mx" after a committed mutation.   *)
(*                                                                           *)
(* Two definitions are given and TLC checks that they agree on every case:    *)
(*   Authorised - declarative statement of the property                       *)
(*   Runs       - the converted program executed on a small stack machine     *)
(*                with the CHECKSIG / CHECKMULTISIG / CHECKPREDICATE rules    *)
EXTENDS Integers, Sequences, FiniteSets

(* ------------------------------------------------------------- values *)
Sig(k, m)   == [t |-> "sig", k |-> k, m |-> m]        \* 64 bytes
TSig(k, m)  == [t |-> "tsig", k |-> k, m |-> m]       \* the same signature cut to 63 bytes
Junk        == [t |-> "junk"]                          \* 64 arbitrary bytes
Pk(k)       == [t |-> "pk", k |-> k]                   \* 32-byte public key
ShortPk(k)  == [t |-> "spk", k |-> k]                  \* public key cut to 31 bytes
Empty       == [t |-> "empty"]                         \* zero-length string
Script(keys, q) == [t |-> "script", keys |-> keys, q |-> q]   \* redeem script TXSIGHASH pk.. q n CHECKMULTISIG
IntV(n)      == [t |-> "int", k |-> n]
Msg(m)      == [t |-> "msg", m |-> m]
H160(v)     == [t |-> "h160", of |-> v]
Sha3(v)     == [t |-> "sha3", of |-> v]
Bool(b)     == [t |-> "bool", k |-> IF b THEN 1 ELSE 0]

ByteLen(v) == CASE v.t \in {"sig", "junk"} -> 64
                [] v.t = "tsig" -> 63
                [] v.t \in {"pk", "msg", "sha3"} -> 32
                [] v.t = "spk" -> 31
                [] v.t = "h160" -> 20
                [] v.t = "empty" -> 0
                [] v.t \in {"int", "bool"} -> IF v.k = 0 THEN 0 ELSE 1
                [] v.t = "script" -> 5 + 33 * Len(v.keys)
IsTrue(v) == ByteLen(v) > 0                            \* every non-empty value here has a non-zero byte
SigOk(pk, msg, s) == s.t = "sig" /\ pk.t = "pk" /\ msg.t = "msg" /\ s.k = pk.k /\ s.m = msg.m

(* ------------------------------------------------------------ programs *)
Op(o) == [op |-> o]
Push(v) == [op |-> "PUSH", v |-> v]
MultisigProg(keys, q) ==
  <<Op("TXSIGHASH")>> \o [i \in 1..Len(keys) |-> Push(Pk(keys[i]))] \o <<Push(IntV(q)), Push(IntV(Len(keys))), Op("CHECKMULTISIG")>>
(* what validation runs for a P2WPKH / P2WSH control program (consensus/segwit conversion) *)
P2PKHSigProg(h) == <<Op("DUP"), Op("HASH160"), Push(h), Op("EQUALVERIFY"), Op("TXSIGHASH"), Op("SWAP"), Op("CHECKSIG")>>
P2SHProg(h) == <<Op("DUP"), Op("SHA3"), Push(h), Op("EQUALVERIFY"), Push(IntV(0)), Op("SWAP"), Push(IntV(0)), Op("CHECKPREDICATE")>>

(* a locked output: [kind, kc, keys, q] *)
ProgOf(lock) == CASE lock.kind = "p2wpkh" -> P2PKHSigProg(H160(Pk(lock.kc)))
                  [] lock.kind = "p2wsh"  -> P2SHProg(Sha3(Script(lock.keys, lock.q)))
                  [] lock.kind = "bare"   -> MultisigProg(lock.keys, lock.q)

(* ------------------------------------------------------- stack machine *)
Fail == [ok |-> FALSE, st |-> <<>>]
St(s) == [ok |-> TRUE, st |-> s]
Top(s) == s[Len(s)]
Cut(s, k) == SubSeq(s, 1, Len(s) - k)                  \* drop the k top items

(* CHECKMULTISIG's matching loop: keys and signatures are consumed from the top of the stack *)
RECURSIVE Greedy(_, _, _, _, _)
Greedy(pks, sigs, msg, pi, si) ==
  IF si = 0 THEN TRUE
  ELSE IF pi = 0 THEN FALSE
  ELSE IF SigOk(pks[pi], msg, sigs[si]) THEN Greedy(pks, sigs, msg, pi - 1, si - 1)
  ELSE Greedy(pks, sigs, msg, pi - 1, si)

CheckMultisig(s) ==
  LET n == Len(s) IN
  IF n < 2 \/ s[n].t # "int" \/ s[n - 1].t # "int" THEN Fail
  ELSE LET np == s[n].k   q == s[n - 1].k IN
       IF q < 0 \/ q > np \/ (np > 0 /\ q = 0) THEN Fail
       ELSE IF n - 2 < np + 1 + q THEN Fail                               \* stack underflow
       ELSE LET pks == [i \in 1..np |-> s[n - 2 - np + i]]
                msg == s[n - 2 - np]
                sigs == [i \in 1..q |-> s[n - 2 - np - 1 - q + i]]
                rest == Cut(s, 2 + np + 1 + q)
            IN IF ByteLen(msg) # 32 THEN Fail
               ELSE IF \E i \in 1..np : ByteLen(pks[i]) # 32 THEN St(Append(rest, Bool(FALSE)))
               ELSE St(Append(rest, Bool(Greedy(pks, sigs, msg, np, q))))

RECURSIVE Run(_, _, _, _)
Step(o, S, cm) ==
  LET s == S.st  n == Len(s) IN
  CASE o.op = "DUP"         -> IF n < 1 THEN Fail ELSE St(Append(s, s[n]))
    [] o.op = "HASH160"     -> IF n < 1 THEN Fail ELSE St(Append(Cut(s, 1), H160(s[n])))
    [] o.op = "SHA3"        -> IF n < 1 THEN Fail ELSE St(Append(Cut(s, 1), Sha3(s[n])))
    [] o.op = "PUSH"        -> St(Append(s, o.v))
    [] o.op = "EQUALVERIFY" -> IF n < 2 THEN Fail ELSE IF s[n] = s[n - 1] THEN St(Cut(s, 2)) ELSE Fail
    [] o.op = "TXSIGHASH"   -> St(Append(s, Msg(cm)))
    [] o.op = "SWAP"        -> IF n < 2 THEN Fail ELSE St(Cut(s, 2) \o <<s[n], s[n - 1]>>)
    [] o.op = "CHECKSIG"    -> IF n < 3 THEN Fail
                               ELSE IF ByteLen(s[n - 1]) # 32 THEN Fail                       \* message must be 32 bytes
                               ELSE IF ByteLen(s[n]) # 32 THEN St(Append(Cut(s, 3), Bool(FALSE)))   \* malformed public key
                               ELSE St(Append(Cut(s, 3), Bool(SigOk(s[n], s[n - 1], s[n - 2]))))
    [] o.op = "CHECKMULTISIG" -> CheckMultisig(s)
    [] o.op = "CHECKPREDICATE" ->                                   \* <n=0: whole stack> <predicate> <limit=0> CHECKPREDICATE
         IF n < 3 \/ s[n].t # "int" \/ s[n - 2].t # "int" \/ s[n - 1].t # "script" THEN Fail
         ELSE LET r == Run(MultisigProg(s[n - 1].keys, s[n - 1].q), 1, St(Cut(s, 3)), cm) IN
              St(<<Bool(r.ok /\ Len(r.st) > 0 /\ IsTrue(Top(r.st)))>>)
Run(prog, pc, S, cm) == IF ~S.ok \/ pc > Len(prog) THEN S ELSE Run(prog, pc + 1, Step(prog[pc], S, cm), cm)

(* the operational definition: the witness arguments are pushed, the converted program runs,   *)
(* the spend is valid iff it ends without error with a true value on top                        *)
Runs(lock, wit, cm) == LET r == Run(ProgOf(lock), 1, St(wit), cm) IN r.ok /\ Len(r.st) > 0 /\ IsTrue(Top(r.st))

(* ---------------------------------------------------------- the property *)
(* q signatures by distinct committed keys, in committed key order, over this transaction's hash *)
Increasing(f, q) == \A i \in 1..(q - 1) : f[i] < f[i + 1]
SigsMatch(sigs, keys, q, cm) == \E f \in [1..q -> 1..Len(keys)] :
                                   Increasing(f, q) /\ \A i \in 1..q : sigs[i] = Sig(keys[f[i]], cm)
LastK(wit, k) == SubSeq(wit, Len(wit) - k + 1, Len(wit))
Authorised(lock, wit, cm) ==
  CASE lock.kind = "p2wpkh" -> Len(wit) >= 2 /\ LastK(wit, 2) = <<Sig(lock.kc, cm), Pk(lock.kc)>>
    [] lock.kind = "p2wsh"  -> /\ Len(wit) >= lock.q + 1
                               /\ Top(wit) = Script(lock.keys, lock.q)
                               /\ SigsMatch(SubSeq(wit, Len(wit) - lock.q, Len(wit) - 1), lock.keys, lock.q, cm)
    [] lock.kind = "bare"   -> Len(wit) >= lock.q /\ SigsMatch(LastK(wit, lock.q), lock.keys, lock.q, cm)

(* ------------------------------------------------ transaction mutations *)
(* single changes applied to the transaction AFTER it was signed; the witness stays as it was *)
TxMutClass == [none |-> "none", timerange |-> "committed", in0src |-> "committed", in0pos |-> "committed",
               in0state |-> "committed", in1src |-> "committed", in1amount |-> "committed", out0prog |-> "committed",
               out0amount |-> "committed", out1state |-> "committed", swapouts |-> "committed", dropout1 |-> "committed",
               in1args |-> "witness"]
TxMuts == DOMAIN TxMutClass
MsgAfter(mut) == IF TxMutClass[mut] = "committed" THEN "mx" ELSE "m"

(* a case: [lock, wit, txmut]; what the specification expects of the real validator *)
Expected(cs) == Authorised(cs.lock, cs.wit, MsgAfter(cs.txmut))
Agree(cs) == Runs(cs.lock, cs.wit, MsgAfter(cs.txmut)) = Expected(cs)
=============================================================================
