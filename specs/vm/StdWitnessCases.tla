-------------------------- MODULE StdWitnessCases --------------------------
(* E for C02: TLC enumerates locks x witness arrangements x transaction       *)
(* mutations, checks that the operational and the declarative definition      *)
(* agree (design), and exports [case, expected verdict].  Cases generated on  *)
(* the Go side (larger m-of-n, random arrangements) are read from             *)
(* cases.ndjson and judged in the same run.                                   *)
EXTENDS StdWitness, TLC, Json, SequencesExt

CONSTANTS NWsh,       \* P2WSH: all m-of-n with n <= NWsh
          NBare,      \* bare multisig: all m-of-n with n <= NBare
          FullExtra   \* TRUE: the extra leading argument ranges over the whole alphabet
VARIABLE c

SeqsUpTo(lo, hi, S) == UNION {[1..n -> S] : n \in lo..hi}
Lock(kind, kc, keys, q) == [kind |-> kind, kc |-> kc, keys |-> keys, q |-> q]
Case(lock, wit, mut) == [lock |-> lock, wit |-> wit, txmut |-> mut]

(* ---- P2WPKH: every sequence of <= 3 arguments over the alphabet *)
PkhAlpha == {Sig(1, "m"), Sig(1, "m2"), Sig(0, "m"), TSig(1, "m"), Junk, Pk(1), Pk(0), ShortPk(1), Empty}
PkhLock == Lock("p2wpkh", 1, <<>>, 0)
PkhCases == {Case(PkhLock, w, "none") : w \in SeqsUpTo(0, 3, PkhAlpha)}

(* ---- multisig: all q-of-n, every arrangement of <= q signature slots, and q slots preceded by one extra argument *)
Keys(n) == [i \in 1..n |-> i]
SigAlpha(n) == {Sig(i, "m") : i \in 1..n} \cup {Sig(1, "m2"), Sig(0, "m"), Junk}
ExtraAlpha(n) == IF FullExtra THEN SigAlpha(n) ELSE {Junk, Sig(1, "m")}
QN(N) == {qn \in (1..N) \X (1..N) : qn[1] <= qn[2]}
MsLock(kind, qn) == Lock(kind, 0, Keys(qn[2]), qn[1])
(* the witness of a multisig spend: the signature slots, followed by the redeem script for P2WSH *)
MsWit(kind, qn, w) == IF kind = "p2wsh" THEN Append(w, Script(Keys(qn[2]), qn[1])) ELSE w

(* the redeem-script argument replaced: another key, another threshold, a key dropped, no script, junk; *)
(* the signatures offered are the ones that would satisfy the offered script, or the committed one      *)
FirstSigs(keys, q) == [i \in 1..q |-> Sig(keys[i], "m")]
AltScripts(n, q) == {Script([Keys(n) EXCEPT ![1] = 0], q)}
                      \cup (IF q < n THEN {Script(Keys(n), q + 1)} ELSE {})
                      \cup (IF q > 1 THEN {Script(Keys(n), q - 1)} ELSE {})
                      \cup (IF n > 1 THEN {Script(SubSeq(Keys(n), 1, n - 1), IF q < n THEN q ELSE n - 1)} ELSE {})
WshAltered == UNION {UNION {{Case(MsLock("p2wsh", qn), Append(FirstSigs(s.keys, s.q), s), "none"),
                             Case(MsLock("p2wsh", qn), Append(FirstSigs(Keys(qn[2]), qn[1]), s), "none")}
                              : s \in AltScripts(qn[2], qn[1])} : qn \in QN(NWsh)}
                 \cup {Case(MsLock("p2wsh", qn), FirstSigs(Keys(qn[2]), qn[1]), "none") : qn \in QN(NWsh)}
                 \cup {Case(MsLock("p2wsh", qn), Append(FirstSigs(Keys(qn[2]), qn[1]), Junk), "none") : qn \in QN(NWsh)}

(* ---- every transaction mutation against a correctly signed spend of each kind *)
GoodLocks == {PkhLock} \cup {MsLock(k, qn) : k \in {"p2wsh", "bare"}, qn \in QN(3)}
GoodWit(lock) == CASE lock.kind = "p2wpkh" -> <<Sig(1, "m"), Pk(1)>>
                   [] lock.kind = "p2wsh"  -> Append(FirstSigs(lock.keys, lock.q), Script(lock.keys, lock.q))
                   [] lock.kind = "bare"   -> FirstSigs(lock.keys, lock.q)
MutCases == {Case(l, GoodWit(l), mut) : l \in GoodLocks, mut \in TxMuts}

FileCases == ndJsonDeserialize("cases.ndjson")          \* records [id, cs]; every value carries all of t, k, m, keys, q
Norm(v) == CASE v.t \in {"sig", "tsig"} -> [t |-> v.t, k |-> v.k, m |-> v.m]
             [] v.t \in {"pk", "spk"}   -> [t |-> v.t, k |-> v.k]
             [] v.t = "script"          -> Script(v.keys, v.q)
             [] OTHER                   -> [t |-> v.t]
NormCase(cs) == [cs EXCEPT !.wit = [i \in 1..Len(cs.wit) |-> Norm(cs.wit[i])]]

(* One initial state per SEED; its successors complete the seed in every way, so the  *)
(* workers build and judge the cases in parallel and no large set of case records is   *)
(* ever materialised.  A multisig seed fixes the lock and the first signature slot.    *)
NChunk == 64
MsSeeds(kind, N) == UNION {{[fam |-> "ms", kind |-> kind, qn |-> qn, x |-> x] : x \in SigAlpha(qn[2]) \cup {[t |-> "none"]}} : qn \in QN(N)}
Seeds == {[fam |-> "pkh"], [fam |-> "alt"], [fam |-> "mut"]} \cup MsSeeds("p2wsh", NWsh) \cup MsSeeds("bare", NBare)
           \cup {[fam |-> "file", k |-> k] : k \in 0..(NChunk - 1)}

Emit(id, src, cs) == \E e \in {Expected(cs)} : \E a \in {Agree(cs)} :
                       /\ c' = [lvl |-> 1, seed |-> c.seed, cs |-> cs, ok |-> a]
                       /\ PrintT("EXPORT " \o ToJson([id |-> id, src |-> src, cs |-> cs, exp |-> e]))
EmitMs(s, w) == Emit(0, "enum", Case(MsLock(s.kind, s.qn), MsWit(s.kind, s.qn, w), "none"))

Init == c \in {[lvl |-> 0, seed |-> s] : s \in Seeds}
Next == /\ c.lvl = 0
        /\ LET s == c.seed IN
           CASE s.fam = "pkh"  -> \E w \in SeqsUpTo(0, 3, PkhAlpha) : Emit(0, "enum", Case(PkhLock, w, "none"))
             [] s.fam = "alt"  -> \E cs \in WshAltered : Emit(0, "enum", cs)
             [] s.fam = "mut"  -> \E cs \in MutCases : Emit(0, "enum", cs)
             [] s.fam = "ms"   ->
                  LET q == s.qn[1]  A == SigAlpha(s.qn[2]) IN
                  IF s.x.t = "none" THEN EmitMs(s, <<>>)                                  \* no signature slot at all
                  ELSE \/ \E w \in SeqsUpTo(0, q - 1, A) : EmitMs(s, <<s.x>> \o w)       \* 1..q slots starting with x
                       \/ \E e \in ExtraAlpha(s.qn[2]), w \in [1..(q - 1) -> A] : EmitMs(s, <<e, s.x>> \o w)   \* extra argument + q slots
             [] s.fam = "file" -> \E n \in {x \in 1..Len(FileCases) : x % NChunk = s.k} :
                                     Emit(FileCases[n].id, "file", NormCase(FileCases[n].cs))
(* design: running the converted program accepts exactly the authorised witnesses *)
DesignOK == c.lvl = 1 => c.ok
=============================================================================
