--------------------------- MODULE VMAliasCases ---------------------------
(* Case space of C06: every program of at most MaxLen instructions over the  *)
(* aliasing-relevant alphabet (instructions that copy, move, cut or join     *)
(* stack items, plus small pushes) in four contexts: argument lists of short  *)
(* strings with 0..3 initial state-data items (FROMALTSTACK / TOALTSTACK then  *)
(* pop, replace and extend the caller's state).                              *)
(* TLC enumerates the space; the cases are then evaluated by VMRun.tla.      *)
EXTENDS Integers, Sequences, TLC, Json

CONSTANTS MaxLen, NShards, Shard

Sym == << <<118>>,        \* DUP
          <<110>>,        \* 2DUP
          <<120>>,        \* OVER
          <<121>>,        \* PICK
          <<124>>,        \* SWAP
          <<123>>,        \* ROT
          <<125>>,        \* TUCK
          <<107>>,        \* TOALTSTACK
          <<108>>,        \* FROMALTSTACK
          <<126>>,        \* CAT
          <<137>>,        \* CATPUSHDATA
          <<127>>,        \* SUBSTR
          <<128>>,        \* LEFT
          <<129>>,        \* RIGHT
          <<130>>,        \* SIZE
          <<117>>,        \* DROP
          <<131>>,        \* INVERT
          <<0>>,          \* push ""
          <<81>>,         \* push 1
          <<82>>,         \* push 2
          <<1, 122>> >>   \* push "z"
K == Len(Sym)

(* contexts: argument list and initial state data (0..3 items on the alt stack before the program runs) *)
Contexts == << [args  |-> << <<97, 98>>, <<99, 100, 101>> >>,                 \* "ab" "cde"
                state |-> <<>>],
               [args  |-> << <<97, 98, 99, 100>>, <<1>>, <<2>> >>,            \* "abcd" 1 2  (offset / size operands)
                state |-> << <<83, 116>> >>],                                  \* "St"
               [args  |-> << <<97>>, <<>>, <<98, 99, 100>> >>,                \* "a" "" "bcd"
                state |-> << <<111, 119, 110>>, <<111, 108, 100>> >>],         \* "own" "old"
               [args  |-> << <<97, 98>> >>,                                    \* "ab"
                state |-> << <<5>>, <<>>, <<120, 121>> >>] >>                  \* 5 "" "xy"

RECURSIVE Flat(_, _)
Flat(p, k) == IF k > Len(p) THEN <<>> ELSE Sym[p[k]] \o Flat(p, k + 1)
RECURSIVE SumSeq(_, _)
SumSeq(p, k) == IF k > Len(p) THEN 0 ELSE p[k] + SumSeq(p, k + 1)

VARIABLES p, a
Init == /\ p \in UNION {[1..n -> 1..K] : n \in 1..MaxLen}
        /\ a \in 1..Len(Contexts)
        /\ (SumSeq(p, 1) + a) % NShards = Shard
        /\ PrintT("EXPORT " \o ToJson([prog |-> Flat(p, 1), args |-> Contexts[a].args, state |-> Contexts[a].state,
                                       limit |-> 10000, fam |-> "enum"]))
Next == UNCHANGED <<p, a>>
=============================================================================
