------------------------------- MODULE VMGas -------------------------------
(* Cost table and accounting discipline of the VM ("run limit" = gas).        *)
(*                                                                            *)
(* A frame is one virtual machine instance (the top-level program or a        *)
(* CHECKPREDICATE child):                                                     *)
(*   [prog, pc, npc, ds, as, gas, def, pend, unpaid, err, depth, expres,      *)
(*    hidx, phi0]                                                             *)
(* ds/as: data / alt stack, top = last element.  gas: remaining run limit.    *)
(* def: cost deferred to the end of the running instruction; pend: number of  *)
(* items pushed with deferred cost by the running instruction.                *)
(*                                                                            *)
(* Discipline:                                                                *)
(*  - an item on a stack costs 8 + its length ("standard memory cost"),       *)
(*    charged when pushed and refunded when popped;                           *)
(*  - every instruction has a base cost charged first; an immediate charge    *)
(*    larger than the remaining gas fails with class "runlimit" and leaves 0; *)
(*  - most instructions defer the memory cost of their own pops/pushes and    *)
(*    settle the net amount once, at the end of the instruction;              *)
(*  - some instructions charge a transient amount (the size of the result)    *)
(*    that is given back at the end;                                          *)
(*  - an item is on a stack only if its memory cost has been charged: when    *)
(*    the settlement at the end of an instruction fails, the items the        *)
(*    instruction pushed "on credit" are not there (unpaid records their      *)
(*    cost).  Hence Phi never increases, a failed CHECKPREDICATE child cannot *)
(*    hand back more than it received, and every execution is finite.         *)
(* Potential: Phi(f) = gas + StackCost(ds) + StackCost(as).                   *)
EXTENDS Integers, Sequences, VMNat

ItemCost(x) == 8 + Len(x)
RECURSIVE StackCostR(_, _)
StackCostR(s, k) == IF k = 0 THEN 0 ELSE ItemCost(s[k]) + StackCostR(s, k - 1)
StackCost(s) == StackCostR(s, Len(s))
Phi(f) == f.gas + StackCost(f.ds) + StackCost(f.as)

(* base cost by opcode; -1 = computed by the instruction itself *)
BaseCost(op) ==
  CASE op = 0 -> 1                                   \* FALSE
    [] op >= 1 /\ op <= 78 -> 1                      \* DATA_n, PUSHDATA1/2/4
    [] op >= 81 /\ op <= 96 -> 1                     \* OP_1..OP_16
    [] op = 97 -> 1                                  \* NOP
    [] op = 99 \/ op = 100 -> 1                      \* JUMP JUMPIF
    [] op = 105 \/ op = 106 -> 1                     \* VERIFY FAIL
    [] op = 192 -> 256                               \* CHECKPREDICATE (192 of it returned at the end)
    [] op = 107 \/ op = 108 -> 2                     \* TOALTSTACK FROMALTSTACK
    [] op = 109 -> 2                                 \* 2DROP
    [] op = 110 -> 2                                 \* 2DUP
    [] op = 111 -> 3                                 \* 3DUP
    [] op = 112 \/ op = 113 \/ op = 114 -> 2         \* 2OVER 2ROT 2SWAP
    [] op = 115 \/ op = 116 \/ op = 117 \/ op = 118 \/ op = 119 \/ op = 120 -> 1  \* IFDUP DEPTH DROP DUP NIP OVER
    [] op = 121 \/ op = 122 \/ op = 123 -> 2         \* PICK ROLL ROT
    [] op = 124 \/ op = 125 -> 1                     \* SWAP TUCK
    [] op = 126 \/ op = 127 \/ op = 128 \/ op = 129 \/ op = 137 -> 4   \* CAT SUBSTR LEFT RIGHT CATPUSHDATA
    [] op = 130 -> 1                                 \* SIZE
    [] op >= 131 /\ op <= 136 -> 1                   \* INVERT AND OR XOR EQUAL EQUALVERIFY (+ length)
    [] op = 139 \/ op = 140 \/ op = 141 \/ op = 142 \/ op = 145 \/ op = 146 \/ op = 147 \/ op = 148 -> 2
    [] op >= 149 /\ op <= 153 -> 8                   \* MUL DIV MOD LSHIFT RSHIFT
    [] op >= 154 /\ op <= 164 -> 2                   \* BOOLAND .. MAX
    [] op = 165 -> 4                                 \* WITHIN
    [] op = 168 \/ op = 170 \/ op = 171 -> -1        \* SHA256 SHA3 HASH160: by input length
    [] op = 172 -> 1024                              \* CHECKSIG
    [] op = 173 -> -1                                \* CHECKMULTISIG: 1024 per public key
    [] op = 174 -> 256                               \* TXSIGHASH
    [] op = 193 -> 16                                \* CHECKOUTPUT
    [] op = 194 \/ op = 195 \/ op = 196 \/ op = 201 \/ op = 202 \/ op = 203 \/ op = 205 -> 1
    [] OTHER -> 1                                    \* expansion opcodes

IsDefinedOp(op) ==
  \/ op <= 78 \/ (op >= 81 /\ op <= 97) \/ op = 99 \/ op = 100 \/ (op >= 105 /\ op <= 137)
  \/ op = 139 \/ op = 140 \/ op = 141 \/ op = 142 \/ (op >= 145 /\ op <= 165)
  \/ op = 168 \/ (op >= 170 /\ op <= 174) \/ (op >= 192 /\ op <= 196) \/ op = 201 \/ op = 202 \/ op = 203 \/ op = 205

(* ---- accounting combinators; all are the identity on a failed frame ---- *)
Ok(f) == f.err = "none"
Fail(f, e) == IF Ok(f) THEN [f EXCEPT !.err = e] ELSE f
Charge(f, n) == IF ~Ok(f) THEN f
                ELSE IF n > f.gas THEN [f EXCEPT !.gas = 0, !.err = "runlimit"]
                ELSE [f EXCEPT !.gas = @ - n]
(* charge an amount given as a big natural (sizes and limits taken from the stack) *)
ChargeBig(f, v) == IF ~Ok(f) THEN f
                   ELSE IF NLt(NFromInt(f.gas), v) THEN [f EXCEPT !.gas = 0, !.err = "runlimit"]
                   ELSE Charge(f, NToInt4(v))
Defer(f, n) == IF Ok(f) THEN [f EXCEPT !.def = @ + n] ELSE f

Front(s) == SubSeq(s, 1, Len(s) - 1)
Depth(f) == Len(f.ds)
Peek(f, k) == f.ds[Len(f.ds) - k + 1]          \* k = 1 is the top

NoVal == <<>>
(* pops return [f, v] *)
PopD(f) == IF ~Ok(f) THEN [f |-> f, v |-> NoVal]
           ELSE IF f.ds = <<>> THEN [f |-> Fail(f, "underflow"), v |-> NoVal]
           ELSE LET x == f.ds[Len(f.ds)] IN [f |-> [f EXCEPT !.ds = Front(@), !.def = @ - ItemCost(x)], v |-> x]
PopI(f) == IF ~Ok(f) THEN [f |-> f, v |-> NoVal]
           ELSE IF f.ds = <<>> THEN [f |-> Fail(f, "underflow"), v |-> NoVal]
           ELSE LET x == f.ds[Len(f.ds)] IN [f |-> [f EXCEPT !.ds = Front(@), !.gas = @ + ItemCost(x)], v |-> x]
PushD(f, x) == IF ~Ok(f) THEN f ELSE [f EXCEPT !.ds = Append(@, x), !.def = @ + ItemCost(x), !.pend = @ + 1]
PushI(f, x) == IF ~Ok(f) THEN f
               ELSE LET g == Charge(f, ItemCost(x)) IN IF Ok(g) THEN [g EXCEPT !.ds = Append(@, x)] ELSE g
PushAltI(f, x) == IF ~Ok(f) THEN f
                  ELSE LET g == Charge(f, ItemCost(x)) IN IF Ok(g) THEN [g EXCEPT !.as = Append(@, x)] ELSE g

(* end of an instruction: settle the deferred amount, move to the next instruction *)
Settle(f) == IF ~Ok(f) THEN f
             ELSE LET g == Charge(f, f.def) IN
                  IF Ok(g) THEN [g EXCEPT !.def = 0, !.pend = 0, !.pc = g.npc]
                  ELSE LET keep == Len(g.ds) - g.pend IN
                       [g EXCEPT !.ds = SubSeq(g.ds, 1, keep),
                                 !.unpaid = StackCost(SubSeq(g.ds, keep + 1, Len(g.ds)))]
=============================================================================
