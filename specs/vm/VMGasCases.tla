---------------------------- MODULE VMGasCases ----------------------------
(* Case space of C07: every program of at most MaxLen symbols over an alphabet *)
(* built for the gas discipline - pushes, refunding pops, back and forward     *)
(* jumps, CHECKPREDICATE calls (operands + call as one symbol; predicates that *)
(* succeed, fail, run out of gas, leave items behind, call again; limit        *)
(* operands 2^63-1, 2^63, 2^63+1, 2^64-1, 2^64), altstack                      *)
(* moves, size-dependent costs, expansion opcodes - x gas limits from 0 up.    *)
(* TLC enumerates the space; the cases are evaluated by VMRun.tla, where the   *)
(* invariants GasNonNeg / PhiBounded / ChildBounded / ResultBounded are        *)
(* checked on every state of every execution.                                  *)
EXTENDS Integers, Sequences, TLC, Json

CONSTANTS MaxLen, NShards, Shard, Limits

(* n predicate limit CHECKPREDICATE with n = 0 (all items) *)
CP(pred, lim) == <<0>> \o <<Len(pred)>> \o pred \o lim \o <<192>>

B7(b) == <<b, b, b, b, b, b, b>>
B6(b) == <<b, b, b, b, b, b>>

Sym == << <<0>>,                       \* push ""
          <<81>>,                      \* push 1
          <<2, 97, 98>>,               \* push "ab"
          <<117>>,                     \* DROP
          <<109>>,                     \* 2DROP
          <<118>>,                     \* DUP
          <<119>>,                     \* NIP
          <<99, 0, 0, 0, 0>>,          \* JUMP 0 (back edge)
          <<100, 0, 0, 0, 0>>,         \* JUMPIF 0
          <<99, 255, 0, 0, 0>>,        \* JUMP beyond the end
          <<105>>,                     \* VERIFY
          <<106>>,                     \* FAIL
          <<107>>,                     \* TOALTSTACK
          <<108>>,                     \* FROMALTSTACK
          <<126>>,                     \* CAT
          <<170>>,                     \* SHA3
          <<97>>,                      \* NOP
          <<240>>,                     \* expansion opcode
          <<130>>,                     \* SIZE
          <<139>>,                     \* 1ADD
          CP(<<81>>, <<0>>),           \* predicate TRUE, all remaining gas
          CP(<<81>>, <<1, 5>>),        \* predicate TRUE, limit 5: runs out of gas in the child
          CP(<<106>>, <<0>>),          \* predicate FAIL
          CP(<<118, 118>>, <<1, 40>>), \* predicate DUP DUP, limit 40: leaves items behind / runs out
          CP(<<130>>, <<81>>),         \* predicate SIZE, limit 1: cannot pay for its result
          CP(<<99, 0, 0, 0, 0>>, <<1, 30>>),          \* predicate loops until its limit is used up
          CP(<<0, 1, 81, 0, 192>>, <<0>>),            \* predicate calls CHECKPREDICATE again
          \* limit operands at the int64 / uint64 boundaries (non-empty predicate): a limit that is not an
          \* int64 must fail as a bad value and can never raise the parent's gas
          CP(<<81>>, <<8>> \o B7(255) \o <<127>>),               \* 2^63-1: valid, more than any gas
          CP(<<81>>, <<8>> \o B7(0) \o <<128>>),                 \* 2^63
          CP(<<81>>, <<8, 1>> \o B6(0) \o <<128>>),              \* 2^63+1
          CP(<<81>>, <<8>> \o B7(255) \o <<255>>),               \* 2^64-1
          CP(<<97, 81>>, <<9>> \o B7(0) \o <<0, 1>>) >>          \* 2^64, predicate NOP TRUE
K == Len(Sym)

ArgLists == << <<>>, << <<1>>, <<97, 98, 99>> >> >>

RECURSIVE Flat(_, _)
Flat(p, k) == IF k > Len(p) THEN <<>> ELSE Sym[p[k]] \o Flat(p, k + 1)
RECURSIVE SumSeq(_, _)
SumSeq(p, k) == IF k > Len(p) THEN 0 ELSE p[k] + SumSeq(p, k + 1)

VARIABLES p, a, l
Init == /\ p \in UNION {[1..n -> 1..K] : n \in 1..MaxLen}
        /\ a \in 1..Len(ArgLists)
        /\ l \in Limits
        /\ (SumSeq(p, 1) + a) % NShards = Shard
        /\ PrintT("EXPORT " \o ToJson([prog |-> Flat(p, 1), args |-> ArgLists[a], state |-> <<>>,
                                       limit |-> l, fam |-> "enum"]))
Next == UNCHANGED <<p, a, l>>
=============================================================================
