---------------------------- MODULE VMGasUsage ----------------------------
(* Accounting of the gas a verification returned (validation.GasState):      *)
(* UpdateUsage(g, left): a negative remainder is rejected (it would let a    *)
(* transaction undercount the block's gas); otherwise gasUsed grows by what  *)
(* was consumed, gasLeft becomes the remainder, and the remainder must still *)
(* cover the storage gas.  One-step case table evaluated by TLC.             *)
EXTENDS Integers, Sequences, TLC, Json

Lefts == {0, 1, 5, 100, 300000}
Storages == {0, 1, 5, 99, 100, 101}
Returns == {0 - 300000, 0 - 2, 0 - 1, 0, 1, 4, 5, 6, 99, 100, 101, 300000}

UpdateUsage(g, left) ==
  IF left < 0 THEN [err |-> "gascalc", g |-> g]
  ELSE LET g2 == [g EXCEPT !.used = @ + (g.left - left), !.left = left]
       IN IF g2.storage > g2.left THEN [err |-> "overcredit", g |-> g2] ELSE [err |-> "none", g |-> g2]

VARIABLES gl, st, ret
Init == /\ gl \in Lefts /\ st \in Storages /\ ret \in Returns
        /\ LET g == [left |-> gl, used |-> 7, storage |-> st]
               r == UpdateUsage(g, ret)
           IN PrintT("EXPORT " \o ToJson([g |-> g, ret |-> ret, err |-> r.err, after |-> r.g]))
Next == UNCHANGED <<gl, st, ret>>
(* a verification that respects C07 (0 <= ret <= left) never makes usage decrease *)
UsageMonotone == (ret >= 0 /\ ret <= gl) => UpdateUsage([left |-> gl, used |-> 7, storage |-> st], ret).g.used >= 7
=============================================================================
