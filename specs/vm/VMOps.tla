------------------------------- MODULE VMOps -------------------------------
(* Reference semantics of every Bytom VM opcode, written from the documented  *)
(* behaviour: stack effect, failure classes, and the cost schedule (VMGas).   *)
(* Items are byte strings; stacks are sequences with the top at the end, so   *)
(* the specification is value-semantic by construction: an operation can only *)
(* produce new values, it can never change another item, an argument or the   *)
(* program (C06).  Numbers are unbounded naturals (VMNat) checked against the *)
(* documented ranges, not machine words.  Hash functions and signature        *)
(* verification are uninterpreted: their values come from tables of facts     *)
(* (c.H, c.S) that the driver computes with the Go standard library.          *)
(*                                                                            *)
(* ExecOp(f, i, c): frame after instruction i (before the deferred cost is    *)
(* settled); c is the case record (context and tables).                       *)
EXTENDS Integers, Sequences, FiniteSets, Bitwise, VMValues, VMGas, VMParse

Min2(a, b) == IF a < b THEN a ELSE b
Max2(a, b) == IF a > b THEN a ELSE b

PopNumD(f) == LET p == PopD(f) IN
  IF ~Ok(p.f) THEN p
  ELSE LET d == DecodeNum(p.v) IN
       IF d.err = NoErr THEN [f |-> p.f, v |-> d.v] ELSE [f |-> Fail(p.f, d.err), v |-> NoVal]
PopNumI(f) == LET p == PopI(f) IN
  IF ~Ok(p.f) THEN p
  ELSE LET d == DecodeNum(p.v) IN
       IF d.err = NoErr THEN [f |-> p.f, v |-> d.v] ELSE [f |-> Fail(p.f, d.err), v |-> NoVal]
(* the popped number must be usable as a size / count / index (at most 2^63-1) *)
I64(p) == IF Ok(p.f) /\ ~FitsInt64(p.v) THEN [f |-> Fail(p.f, "badvalue"), v |-> NoVal] ELSE p

Conclude(f, r) == IF ~Ok(f) THEN f ELSE IF r.err # NoErr THEN Fail(f, r.err) ELSE PushD(f, r.v)

(* x y -> R(x, y) on numbers (y is on top) *)
NumBin(f, cost, R(_, _)) ==
  LET py == PopNumD(Charge(f, cost))
      px == PopNumD(py.f)
  IN IF Ok(px.f) THEN Conclude(px.f, R(px.v, py.v)) ELSE px.f
NumUn(f, cost, R(_)) ==
  LET px == PopNumD(Charge(f, cost))
  IN IF Ok(px.f) THEN Conclude(px.f, R(px.v)) ELSE px.f

RECURSIVE PushSeqI(_, _, _)
PushSeqI(f, xs, k) == IF k > Len(xs) \/ ~Ok(f) THEN f ELSE PushSeqI(PushI(f, xs[k]), xs, k + 1)

(* n top items duplicated in order: a b -> a b a b *)
NDup(f, n, cost) == LET g == Charge(f, cost) IN
  IF ~Ok(g) THEN g
  ELSE IF Depth(g) < n THEN Fail(g, "underflow")
  ELSE PushSeqI(g, SubSeq(g.ds, Len(g.ds) - n + 1, Len(g.ds)), 1)

(* rearrangement of the top n items without memory accounting *)
Rearr(f, cost, n, P(_)) == LET g == Charge(f, cost) IN
  IF ~Ok(g) THEN g
  ELSE IF Depth(g) < n THEN Fail(g, "underflow")
  ELSE [g EXCEPT !.ds = SubSeq(g.ds, 1, Len(g.ds) - n) \o P(SubSeq(g.ds, Len(g.ds) - n + 1, Len(g.ds)))]

(* ---- uninterpreted functions: facts supplied with the case ---- *)
HashIdx(c, x) == {k \in 1..Len(c.H) : c.H[k].x = x}
HasHash(c, x) == HashIdx(c, x) # {}
HashOf(c, alg, x) == LET k == CHOOSE k \in HashIdx(c, x) : TRUE IN
  CASE alg = "sha256" -> c.H[k].s256 [] alg = "sha3" -> c.H[k].s3 [] alg = "ripemd160" -> c.H[k].r160
(* an ed25519 signature is 64 bytes and a public key 32 bytes; anything else does not verify *)
SigOk(c, pk, msg, sig) == /\ Len(sig) = 64 /\ Len(pk) = 32
                          /\ \E k \in 1..Len(c.S) : c.S[k].pk = pk /\ c.S[k].msg = msg /\ c.S[k].sig = sig

DoHash(f, alg, c) ==
  LET p == PopI(f)
      cost == IF alg = "ripemd160" THEN 64 + Len(p.v) ELSE Max2(64, Len(p.v))
      g == Charge(p.f, cost)
  IN IF ~Ok(g) THEN g
     ELSE IF ~HasHash(c, p.v) THEN Fail(g, "nohash")     \* the driver did not supply this fact: case not judged
     ELSE PushI(g, HashOf(c, alg, p.v))

RECURSIVE PopND(_, _, _)
(* pops n items (deferred refund); [f, vs] with vs in pop order (top first) *)
PopND(f, n, acc) == IF n = 0 \/ ~Ok(f) THEN [f |-> f, vs |-> acc]
                    ELSE LET p == PopD(f) IN PopND(p.f, n - 1, IF Ok(p.f) THEN Append(acc, p.v) ELSE acc)
(* number of items that will actually be popped when v items are asked for *)
Clamp(f, v) == IF NLt(NFromInt(Depth(f)), v) THEN Depth(f) + 1 ELSE NToInt(v)

RECURSIVE SigMatch(_, _, _, _)
(* every signature is matched, in order, by some later-or-equal public key *)
SigMatch(c, sigs, pks, msg) ==
  IF sigs = <<>> THEN TRUE
  ELSE IF pks = <<>> THEN FALSE
  ELSE IF SigOk(c, pks[1], msg, sigs[1]) THEN SigMatch(c, Tail(sigs), Tail(pks), msg)
  ELSE SigMatch(c, sigs, Tail(pks), msg)

CheckMultiSig(f, c) ==
  LET pn == I64(PopNumD(f))                             \* number of public keys
      cost == NMul(pn.v, <<0, 4>>)                       \* 1024 per key
      f1 == IF ~Ok(pn.f) THEN pn.f
            ELSE IF ~FitsInt64(cost) THEN Fail(pn.f, "badvalue") ELSE ChargeBig(pn.f, cost)
      pm == I64(PopNumD(f1))                             \* number of signatures
      f2 == IF ~Ok(pm.f) THEN pm.f
            ELSE IF NLt(pn.v, pm.v) \/ (~NIsZero(pn.v) /\ NIsZero(pm.v)) THEN Fail(pm.f, "badvalue")
            ELSE pm.f
      pks == PopND(f2, IF Ok(f2) THEN Clamp(f2, pn.v) ELSE 0, <<>>)
      pmsg == PopD(pks.f)
      f3 == IF Ok(pmsg.f) /\ Len(pmsg.v) # 32 THEN Fail(pmsg.f, "badvalue") ELSE pmsg.f
      sigs == PopND(f3, IF Ok(f3) THEN Clamp(f3, pm.v) ELSE 0, <<>>)
      g == sigs.f
  IN IF ~Ok(g) THEN g
     ELSE IF \E k \in 1..Len(pks.vs) : Len(pks.vs[k]) # 32 THEN PushD(g, BoolBytes(FALSE))
     ELSE PushD(g, BoolBytes(SigMatch(c, sigs.vs, pks.vs, pmsg.v)))

CheckOutput(f, cost, c) ==
  LET pcode == PopD(Charge(f, cost))
      pver  == PopNumD(pcode.f)
      pas   == PopD(pver.f)
      pam   == PopNumD(pas.f)
      f1    == IF Ok(pam.f) /\ ~FitsUint64(pam.v) THEN Fail(pam.f, "badvalue") ELSE pam.f
      pidx  == PopNumD(f1)
      g     == pidx.f
      co    == c.ctx.co
  IN IF ~Ok(g) THEN g
     ELSE IF ~co.has THEN Fail(g, "context")
     \* the vm version of an output is a 64-bit quantity and there is no output at an index >= the number of outputs
     ELSE IF ~FitsUint64(pver.v) THEN Fail(g, "badvalue")
     ELSE IF ~NLt(pidx.v, NFromInt(Len(co.outs))) THEN Fail(g, "badvalue")
     ELSE LET o == co.outs[NToInt(pidx.v) + 1] IN
          PushD(g, BoolBytes(o.amount = pam.v /\ o.asset = pas.v /\ o.ver = pver.v /\ o.code = pcode.v))

CtxPush(f, cost, field) == LET g == Charge(f, cost) IN
  IF ~Ok(g) THEN g ELSE IF ~field.has THEN Fail(g, "context") ELSE PushD(g, field.v)

(* jump target as a program counter; every address at or beyond the end ends the program *)
JumpPc(data, proglen) == LET t == Target(data) IN IF t < 0 \/ t > proglen THEN proglen ELSE t

Splice(f, cost, kind) ==
  LET ps == I64(PopNumD(Charge(f, cost)))                    \* size
      f1 == ChargeBig(ps.f, ps.v)                         \* transient charge of the result size
      f2 == IF Ok(f1) THEN Defer(f1, 0 - NToInt4(ps.v)) ELSE f1
      po == IF kind = "substr" THEN I64(PopNumD(f2)) ELSE [f |-> f2, v |-> NZero]   \* offset
      pstr == PopD(po.f)
      g == pstr.f
      str == pstr.v
  IN IF ~Ok(g) THEN g
     ELSE LET end == NAdd(po.v, ps.v) IN
          IF NLt(NFromInt(Len(str)), end) THEN Fail(g, "badvalue")
          ELSE LET size == NToInt4(ps.v)  off == NToInt4(po.v) IN
               CASE kind = "substr" -> PushD(g, SubSeq(str, off + 1, off + size))
                 [] kind = "left"   -> PushD(g, SubSeq(str, 1, size))
                 [] kind = "right"  -> PushD(g, SubSeq(str, Len(str) - size + 1, Len(str)))

Cat(f, cost, pushdata) ==
  LET pb == PopD(Charge(f, cost))
      pa == PopD(pb.f)
      lens == Len(pa.v) + Len(pb.v)
      g == Defer(Charge(pa.f, lens), 0 - lens)
  IN PushD(g, pa.v \o (IF pushdata THEN PushData(pb.v) ELSE pb.v))

(* a b -> f(a, b) on byte strings, charging the given function of the two lengths *)
BytesBin(f, cost, L(_, _), R(_, _)) ==
  LET pb == PopD(Charge(f, cost))
      pa == PopD(pb.f)
      g == Charge(pa.f, L(Len(pa.v), Len(pb.v)))
  IN IF Ok(g) THEN Conclude(g, R(pa.v, pb.v)) ELSE g
BAnd(a, b) == RVal([k \in 1..Min2(Len(a), Len(b)) |-> a[k] & b[k]])
BOr(a, b)  == RVal([k \in 1..Max2(Len(a), Len(b)) |-> ByteAt(a, k) | ByteAt(b, k)])
BXor(a, b) == RVal([k \in 1..Max2(Len(a), Len(b)) |-> ByteAt(a, k) ^^ ByteAt(b, k)])
BEq(a, b)  == RBool(a = b)

ExecOp(f, i, c) ==
  LET op == i.op IN
  CASE op = 0 -> PushI(Charge(f, BaseCost(op)), <<>>)
    [] (op >= 1 /\ op <= 78) \/ (op >= 81 /\ op <= 96) -> PushI(Charge(f, BaseCost(op)), i.data)
    [] op = 97 -> Charge(f, BaseCost(op))                                             \* NOP
    [] op = 99 -> LET g == Charge(f, BaseCost(op)) IN IF Ok(g) THEN [g EXCEPT !.npc = JumpPc(i.data, Len(f.prog))] ELSE g
    [] op = 100 -> LET p == PopD(Charge(f, BaseCost(op))) IN
                   IF Ok(p.f) /\ AsBool(p.v) THEN [p.f EXCEPT !.npc = JumpPc(i.data, Len(f.prog))] ELSE p.f
    [] op = 105 -> LET p == PopD(Charge(f, BaseCost(op))) IN IF Ok(p.f) /\ ~AsBool(p.v) THEN Fail(p.f, "verify") ELSE p.f
    [] op = 106 -> Fail(Charge(f, BaseCost(op)), "return")
    [] op = 107 -> LET g == Charge(f, BaseCost(op)) IN                                \* TOALTSTACK
                   IF ~Ok(g) THEN g ELSE IF g.ds = <<>> THEN Fail(g, "underflow")
                   ELSE [g EXCEPT !.as = Append(@, Peek(g, 1)), !.ds = Front(@)]
    [] op = 108 -> LET g == Charge(f, BaseCost(op)) IN                                \* FROMALTSTACK
                   IF ~Ok(g) THEN g ELSE IF g.as = <<>> THEN Fail(g, "altunderflow")
                   ELSE [g EXCEPT !.ds = Append(@, g.as[Len(g.as)]), !.as = Front(@)]
    [] op = 109 -> PopI(PopI(Charge(f, BaseCost(op))).f).f                            \* 2DROP
    [] op = 110 -> NDup(f, 2, BaseCost(op))
    [] op = 111 -> NDup(f, 3, BaseCost(op))
    [] op = 112 -> LET g == Charge(f, BaseCost(op)) IN                                \* 2OVER  a b c d -> a b c d a b
                   IF ~Ok(g) THEN g ELSE IF Depth(g) < 4 THEN Fail(g, "underflow")
                   ELSE PushSeqI(g, <<Peek(g, 4), Peek(g, 3)>>, 1)
    [] op = 113 -> Rearr(f, BaseCost(op), 6, LAMBDA s : <<s[3], s[4], s[5], s[6], s[1], s[2]>>)   \* 2ROT
    [] op = 114 -> Rearr(f, BaseCost(op), 4, LAMBDA s : <<s[3], s[4], s[1], s[2]>>)               \* 2SWAP
    [] op = 115 -> LET g == Charge(f, BaseCost(op)) IN                                \* IFDUP
                   IF ~Ok(g) THEN g ELSE IF g.ds = <<>> THEN Fail(g, "underflow")
                   ELSE IF AsBool(Peek(g, 1)) THEN PushI(g, Peek(g, 1)) ELSE g
    [] op = 116 -> LET g == Charge(f, BaseCost(op)) IN PushI(g, EncodeNum(NFromInt(Depth(f))))    \* DEPTH
    [] op = 117 -> PopI(Charge(f, BaseCost(op))).f                                    \* DROP
    [] op = 118 -> NDup(f, 1, BaseCost(op))
    [] op = 119 -> LET g == Charge(f, BaseCost(op)) IN                                \* NIP  a b -> b
                   IF ~Ok(g) THEN g ELSE IF g.ds = <<>> THEN Fail(g, "underflow")
                   ELSE IF Depth(g) = 1 THEN Fail([g EXCEPT !.ds = <<>>], "underflow")
                   ELSE [g EXCEPT !.gas = @ + ItemCost(Peek(g, 2)),
                                  !.ds = SubSeq(g.ds, 1, Len(g.ds) - 2) \o <<Peek(g, 1)>>]
    [] op = 120 -> LET g == Charge(f, BaseCost(op)) IN                                \* OVER
                   IF ~Ok(g) THEN g ELSE IF Depth(g) < 2 THEN Fail(g, "underflow") ELSE PushI(g, Peek(g, 2))
    [] op = 121 -> LET p == I64(PopNumI(Charge(f, BaseCost(op)))) IN                  \* PICK
                   IF ~Ok(p.f) THEN p.f
                   ELSE IF ~NLt(p.v, NFromInt(Depth(p.f))) THEN Fail(p.f, "underflow")
                   ELSE PushI(p.f, Peek(p.f, NToInt(p.v) + 1))
    [] op = 122 -> LET p == I64(PopNumI(Charge(f, BaseCost(op)))) IN                  \* ROLL
                   IF ~Ok(p.f) THEN p.f
                   ELSE IF ~NLt(p.v, NFromInt(Depth(p.f))) THEN Fail(p.f, "underflow")
                   ELSE LET k == Len(p.f.ds) - NToInt(p.v) IN
                        [p.f EXCEPT !.ds = SubSeq(p.f.ds, 1, k - 1) \o SubSeq(p.f.ds, k + 1, Len(p.f.ds)) \o <<p.f.ds[k]>>]
    [] op = 123 -> Rearr(f, BaseCost(op), 3, LAMBDA s : <<s[2], s[3], s[1]>>)         \* ROT
    [] op = 124 -> Rearr(f, BaseCost(op), 2, LAMBDA s : <<s[2], s[1]>>)               \* SWAP
    [] op = 125 -> LET g == Charge(f, BaseCost(op)) IN                                \* TUCK  a b -> b a b
                   IF ~Ok(g) THEN g ELSE IF Depth(g) < 2 THEN Fail(g, "underflow")
                   ELSE LET a == Peek(g, 2)  b == Peek(g, 1)  base == SubSeq(g.ds, 1, Len(g.ds) - 2)
                            h == Charge(g, ItemCost(b))
                        IN IF Ok(h) THEN [h EXCEPT !.ds = base \o <<b, a, b>>] ELSE [h EXCEPT !.ds = base]
    [] op = 126 -> Cat(f, BaseCost(op), FALSE)
    [] op = 127 -> Splice(f, BaseCost(op), "substr")
    [] op = 128 -> Splice(f, BaseCost(op), "left")
    [] op = 129 -> Splice(f, BaseCost(op), "right")
    [] op = 130 -> LET g == Charge(f, BaseCost(op)) IN                                \* SIZE
                   IF ~Ok(g) THEN g ELSE IF g.ds = <<>> THEN Fail(g, "underflow")
                   ELSE PushD(g, EncodeNum(NFromInt(Len(Peek(g, 1)))))
    [] op = 131 -> LET g == Charge(f, BaseCost(op)) IN                                \* INVERT
                   IF ~Ok(g) THEN g ELSE IF g.ds = <<>> THEN Fail(g, "underflow")
                   ELSE LET t == Peek(g, 1)  h == Charge(g, Len(t)) IN
                        IF Ok(h) THEN [h EXCEPT !.ds = Front(@) \o <<[k \in 1..Len(t) |-> 255 - t[k]]>>] ELSE h
    [] op = 132 -> BytesBin(f, BaseCost(op), Min2, BAnd)
    [] op = 133 -> BytesBin(f, BaseCost(op), Max2, BOr)
    [] op = 134 -> BytesBin(f, BaseCost(op), Max2, BXor)
    [] op = 135 -> BytesBin(f, BaseCost(op), Min2, BEq)
    [] op = 136 -> LET pb == PopD(Charge(f, BaseCost(op)))                            \* EQUALVERIFY
                       pa == PopD(pb.f)
                       g == Charge(pa.f, Min2(Len(pa.v), Len(pb.v)))
                   IN IF Ok(g) /\ pa.v # pb.v THEN Fail(g, "verify") ELSE g
    [] op = 137 -> Cat(f, BaseCost(op), TRUE)
    [] op = 139 -> NumUn(f, BaseCost(op), Ref1Add)
    [] op = 140 -> NumUn(f, BaseCost(op), Ref1Sub)
    [] op = 141 -> NumUn(f, BaseCost(op), Ref2Mul)
    [] op = 142 -> NumUn(f, BaseCost(op), Ref2Div)
    [] op = 145 -> NumUn(f, BaseCost(op), RefNot)
    [] op = 146 -> NumUn(f, BaseCost(op), Ref0Ne)
    [] op = 147 -> NumBin(f, BaseCost(op), RefAdd)
    [] op = 148 -> NumBin(f, BaseCost(op), RefSub)
    [] op = 149 -> NumBin(f, BaseCost(op), RefMul)
    [] op = 150 -> NumBin(f, BaseCost(op), RefDiv)
    [] op = 151 -> NumBin(f, BaseCost(op), RefMod)
    [] op = 152 -> NumBin(f, BaseCost(op), RefLsh)
    [] op = 153 -> NumBin(f, BaseCost(op), RefRsh)
    [] op = 154 -> LET pb == PopD(Charge(f, BaseCost(op)))  pa == PopD(pb.f) IN PushD(pa.f, BoolBytes(AsBool(pa.v) /\ AsBool(pb.v)))
    [] op = 155 -> LET pb == PopD(Charge(f, BaseCost(op)))  pa == PopD(pb.f) IN PushD(pa.f, BoolBytes(AsBool(pa.v) \/ AsBool(pb.v)))
    [] op = 156 -> NumBin(f, BaseCost(op), RefNumEq)
    [] op = 157 -> LET py == PopNumD(Charge(f, BaseCost(op)))  px == PopNumD(py.f) IN  \* NUMEQUALVERIFY
                   IF Ok(px.f) /\ px.v # py.v THEN Fail(px.f, "verify") ELSE px.f
    [] op = 158 -> NumBin(f, BaseCost(op), RefNumNe)
    [] op = 159 -> NumBin(f, BaseCost(op), RefLt)
    [] op = 160 -> NumBin(f, BaseCost(op), RefGt)
    [] op = 161 -> NumBin(f, BaseCost(op), RefLe)
    [] op = 162 -> NumBin(f, BaseCost(op), RefGe)
    [] op = 163 -> NumBin(f, BaseCost(op), RefMin)
    [] op = 164 -> NumBin(f, BaseCost(op), RefMax)
    [] op = 165 -> LET pmax == PopNumD(Charge(f, BaseCost(op)))                       \* WITHIN  x min max -> min <= x < max
                       pmin == PopNumD(pmax.f)
                       px == PopNumD(pmin.f)
                   IN PushD(px.f, BoolBytes(NLe(pmin.v, px.v) /\ NLt(px.v, pmax.v)))
    [] op = 168 -> DoHash(f, "sha256", c)
    [] op = 170 -> DoHash(f, "sha3", c)
    [] op = 171 -> DoHash(f, "ripemd160", c)
    [] op = 172 -> LET ppk == PopD(Charge(f, BaseCost(op)))                        \* CHECKSIG  sig msg pubkey -> bool
                       pmsg == PopD(ppk.f)
                       psig == PopD(pmsg.f)
                       g == psig.f
                   IN IF ~Ok(g) THEN g
                      ELSE IF Len(pmsg.v) # 32 THEN Fail(g, "badvalue")
                      ELSE PushD(g, BoolBytes(SigOk(c, ppk.v, pmsg.v, psig.v)))
    [] op = 173 -> CheckMultiSig(f, c)
    [] op = 174 -> LET g == Charge(f, BaseCost(op)) IN
                   IF ~Ok(g) THEN g ELSE IF ~c.ctx.sighash.has THEN Fail(g, "context") ELSE PushI(g, c.ctx.sighash.v)
    [] op = 193 -> CheckOutput(f, BaseCost(op), c)
    [] op = 194 -> CtxPush(f, BaseCost(op), c.ctx.asset)
    [] op = 195 -> CtxPush(f, BaseCost(op), c.ctx.amount)
    [] op = 196 -> PushD(Charge(f, BaseCost(op)), c.prog)                             \* PROGRAM: the top-level program
    [] op = 201 -> CtxPush(f, BaseCost(op), c.ctx.destpos)
    [] op = 202 -> PushD(Charge(f, BaseCost(op)), c.ctx.entry)
    [] op = 203 -> CtxPush(f, BaseCost(op), c.ctx.outid)
    [] op = 205 -> CtxPush(f, BaseCost(op), c.ctx.height)

(* ---- CHECKPREDICATE: n predicate limit -> bool, evaluated by a child machine ---- *)
NewFrame(prog, ds, as, gas, depth, expres) ==
  [prog |-> prog, pc |-> 0, npc |-> 0, ds |-> ds, as |-> as, gas |-> gas, def |-> 0, pend |-> 0, unpaid |-> 0, err |-> "none",
   depth |-> depth, expres |-> expres, hidx |-> 0, phi0 |-> 0]

(* [f, child]: parent after the operands are taken and the child's limit charged; f.err set on failure *)
CPEnter(f) ==
  LET pl == I64(PopNumD(Defer(Charge(f, BaseCost(192)), 0 - 192)))     \* most of the 256 comes back at the end
      pp == PopD(pl.f)
      pn == I64(PopNumD(pp.f))
      g  == pn.f
      l  == Depth(g)
  IN IF ~Ok(g) THEN [f |-> g, child |-> g]
     ELSE IF NLt(NFromInt(l), pn.v) THEN [f |-> Fail(g, "underflow"), child |-> g]
     ELSE LET n == IF NIsZero(pn.v) THEN l ELSE NToInt(pn.v)
              lim == IF NIsZero(pl.v) THEN NFromInt(g.gas) ELSE pl.v
              h == ChargeBig(g, lim)
          IN IF ~Ok(h) THEN [f |-> h, child |-> h]
             ELSE [f |-> [h EXCEPT !.ds = SubSeq(h.ds, 1, l - n)],
                   child |-> NewFrame(pp.v, SubSeq(h.ds, l - n + 1, l), <<>>, NToInt4(lim), f.depth + 1, FALSE)]

ChildTrue(ch) == Ok(ch) /\ ch.ds # <<>> /\ AsBool(ch.ds[Len(ch.ds)])
(* parent after the child finished: what the child did not use comes back, the verdict is pushed *)
CPReturn(f, ch) ==
  Settle(PushD(Defer(f, 0 - (ch.gas + StackCost(ch.ds) + StackCost(ch.as))), BoolBytes(ChildTrue(ch))))
=============================================================================
