------------------------------ MODULE VMParse ------------------------------
(* Instruction encoding of the Bytom VM (documented layout):                  *)
(*   0x00            FALSE, pushes the empty string                           *)
(*   0x01..0x4b      DATA_n: the next n bytes are pushed                      *)
(*   0x4c/0x4d/0x4e  PUSHDATA1/2/4: 1/2/4-byte little-endian length, then data*)
(*   0x51..0x60      OP_1..OP_16: pushes the one-byte number 1..16            *)
(*   0x63/0x64       JUMP/JUMPIF: 4-byte little-endian target address         *)
(*   anything else   a single byte                                            *)
(* Programs are sequences of bytes (1-based here), pc is 0-based as in the    *)
(* implementation.  An instruction is [op, len, data]; a parse failure is     *)
(* the single class "parse" (truncated instruction).                          *)
EXTENDS Integers, Sequences

OP_FALSE == 0
OP_PUSHDATA1 == 76
OP_PUSHDATA2 == 77
OP_PUSHDATA4 == 78
OP_1 == 81
OP_16 == 96
OP_JUMP == 99
OP_JUMPIF == 100

PBad == [ok |-> FALSE, op |-> 0, len |-> 0, data |-> <<>>]
PInst(op, len, data) == [ok |-> TRUE, op |-> op, len |-> len, data |-> data]

(* instruction made of a header of hdr bytes followed by n data bytes *)
PWithData(prog, pc, op, hdr, n) ==
  IF pc + hdr + n > Len(prog) THEN PBad
  ELSE PInst(op, hdr + n, SubSeq(prog, pc + hdr + 1, pc + hdr + n))

ParseOp(prog, pc) ==
  IF pc < 0 \/ pc >= Len(prog) THEN PBad
  ELSE LET op == prog[pc + 1]  l == Len(prog) IN
    IF op >= OP_1 /\ op <= OP_16 THEN PInst(op, 1, <<op - 80>>)
    ELSE IF op >= 1 /\ op <= 75 THEN PWithData(prog, pc, op, 1, op)
    ELSE IF op = OP_PUSHDATA1 THEN
      IF pc + 2 > l THEN PBad ELSE PWithData(prog, pc, op, 2, prog[pc + 2])
    ELSE IF op = OP_PUSHDATA2 THEN
      IF pc + 3 > l THEN PBad ELSE PWithData(prog, pc, op, 3, prog[pc + 2] + 256 * prog[pc + 3])
    ELSE IF op = OP_PUSHDATA4 THEN
      IF pc + 5 > l THEN PBad
      \* a length of 2^24 or more can never fit in a program handled here (and would overflow TLC integers)
      ELSE IF prog[pc + 5] # 0 THEN PBad
      ELSE PWithData(prog, pc, op, 5, prog[pc + 2] + 256 * prog[pc + 3] + 65536 * prog[pc + 4])
    ELSE IF op = OP_JUMP \/ op = OP_JUMPIF THEN PWithData(prog, pc, op, 1, 4)
    ELSE PInst(op, 1, <<>>)

RECURSIVE ParseFrom(_, _, _)
ParseFrom(prog, pc, acc) ==
  IF pc >= Len(prog) THEN [ok |-> TRUE, insts |-> acc]
  ELSE LET i == ParseOp(prog, pc)
       IN IF ~i.ok THEN [ok |-> FALSE, insts |-> <<>>]
          ELSE ParseFrom(prog, pc + i.len, Append(acc, [op |-> i.op, len |-> i.len, data |-> i.data]))
ParseProgram(prog) == ParseFrom(prog, 0, <<>>)

RECURSIVE SumLen(_, _)
SumLen(insts, k) == IF k = 0 THEN 0 ELSE insts[k].len + SumLen(insts, k - 1)
(* the tiling theorem: instruction lengths add up to the program length *)
Tiles(prog) == LET p == ParseProgram(prog) IN p.ok => SumLen(p.insts, Len(p.insts)) = Len(prog)

IsPushOp(op) == op = OP_FALSE \/ (op >= 1 /\ op <= OP_PUSHDATA4) \/ (op >= OP_1 /\ op <= OP_16)
IsJumpOp(op) == op = OP_JUMP \/ op = OP_JUMPIF

(* canonical (shortest) push of a byte string, as the assembler and the builders infer it *)
PushData(d) ==
  LET n == Len(d) IN
  IF n = 0 THEN <<OP_FALSE>>
  ELSE IF n <= 75 THEN <<n>> \o d
  ELSE IF n < 256 THEN <<OP_PUSHDATA1, n>> \o d
  ELSE IF n < 65536 THEN <<OP_PUSHDATA2, n % 256, n \div 256>> \o d
  ELSE <<OP_PUSHDATA4, n % 256, (n \div 256) % 256, (n \div 65536) % 256, n \div 16777216>> \o d
(* push of a small number as the builders do it (0, OP_1..OP_16, else minimal little-endian bytes) *)
RECURSIVE LEBytes(_)
LEBytes(n) == IF n = 0 THEN <<>> ELSE <<n % 256>> \o LEBytes(n \div 256)
PushNum(n) == IF n = 0 THEN <<OP_FALSE>> ELSE IF n <= 16 THEN <<80 + n>> ELSE PushData(LEBytes(n))

(* ------------------------------------------------------------------------ *)
(* Equivalence of instruction sequences up to the encoding of pushes and the *)
(* relocation of jump targets: what "assembling the disassembly reproduces a *)
(* program that parses to the same instruction sequence" can mean, given     *)
(* that the assembler documents that push opcodes are inferred.              *)

(* jump target as a number, or -1 if it does not fit (>= 2^24: beyond any program here) *)
Target(data) == IF data[4] # 0 THEN -1 ELSE data[1] + 256 * data[2] + 65536 * data[3]
RECURSIVE StartOf(_, _)
StartOf(insts, k) == IF k <= 1 THEN 0 ELSE StartOf(insts, k - 1) + insts[k - 1].len
(* index m of the instruction starting at address t (Len+1 for the end of the program), 0 if none *)
BoundaryIndex(insts, total, t) ==
  IF t = total THEN Len(insts) + 1
  ELSE LET S == {m \in 1..Len(insts) : StartOf(insts, m) = t} IN IF S = {} THEN 0 ELSE CHOOSE m \in S : TRUE

InstEquiv(I, lenI, J, lenJ, k) ==
  LET a == I[k]  b == J[k] IN
  IF IsPushOp(a.op) THEN IsPushOp(b.op) /\ a.data = b.data
  ELSE IF IsJumpOp(a.op) THEN
    /\ a.op = b.op
    /\ LET ta == Target(a.data)  tb == Target(b.data)
           ma == IF ta < 0 \/ ta > lenI THEN 0 ELSE BoundaryIndex(I, lenI, ta)
           mb == IF tb < 0 \/ tb > lenJ THEN 0 ELSE BoundaryIndex(J, lenJ, tb)
           beyondA == ta < 0 \/ ta > lenI
           beyondB == tb < 0 \/ tb > lenJ
       IN \/ (ma > 0 /\ ma = mb)
          \/ (beyondA /\ beyondB)         \* both fall off the end: same behaviour
  ELSE a.op = b.op

(* index of the first non-equivalent instruction, 0 if equivalent, -1 if lengths differ *)
FirstDiff(I, lenI, J, lenJ) ==
  IF Len(I) # Len(J) THEN -1
  ELSE LET D == {k \in 1..Len(I) : ~InstEquiv(I, lenI, J, lenJ, k)}
       IN IF D = {} THEN 0 ELSE CHOOSE k \in D : \A m \in D : k <= m

(* structural causes that can make a disassembly non-reassemblable (used only to classify) *)
HasEmptyPushdataN(insts) == \E k \in 1..Len(insts) : insts[k].op \in {OP_PUSHDATA1, OP_PUSHDATA2, OP_PUSHDATA4} /\ insts[k].data = <<>>
HasOffBoundaryJump(insts, total) ==
  \E k \in 1..Len(insts) : IsJumpOp(insts[k].op) /\
     LET t == Target(insts[k].data) IN t < 0 \/ t > total \/ BoundaryIndex(insts, total, t) = 0
=============================================================================
