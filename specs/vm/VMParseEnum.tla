----------------------------- MODULE VMParseEnum -----------------------------
(* Case space of C09 (enumerated part) and design check of VMParse: every     *)
(* byte string made of at most MaxLen chunks from an alphabet that contains   *)
(* every push form's opcode, the jump opcodes, lengths / addresses and filler *)
(* so that complete, truncated and empty PUSHDATA1/2/4 forms and jumps to     *)
(* instruction starts, into the middle of an instruction and beyond the end   *)
(* all occur.  TLC checks the tiling theorem on each and exports the string.  *)
EXTENDS VMParse, TLC, Json

CONSTANT MaxLen

Chunk == << <<0>>, <<1>>, <<2>>, <<76>>, <<77>>, <<78>>, <<81>>, <<99>>, <<100>>, <<97>>,
            <<0, 0, 0>>, <<6, 0, 0, 0>>, <<5, 0, 0, 0>>, <<75>>, <<255>> >>
K == Len(Chunk)
RECURSIVE Flat(_, _)
Flat(s, k) == IF k > Len(s) THEN <<>> ELSE Chunk[s[k]] \o Flat(s, k + 1)

VARIABLE s
Init == /\ s \in UNION {[1..n -> 1..K] : n \in 0..MaxLen}
        /\ PrintT("EXPORT " \o ToJson([p |-> Flat(s, 1)]))
Next == UNCHANGED s
Tiling == Tiles(Flat(s, 1))
(* parsing is a function of the bytes: a parsable string re-parses to itself when the canonical *)
(* re-encoding of its pushes is the identity (sanity of PushData / ParseOp)                      *)
ASSUME PushRoundTrip == \A d \in {<<>>, <<7>>, [i \in 1..75 |-> 1], [i \in 1..76 |-> 2], [i \in 1..255 |-> 3], [i \in 1..256 |-> 4]} :
                   LET i == ParseOp(PushData(d), 0) IN i.ok /\ i.data = d /\ i.len = Len(PushData(d))
=============================================================================
