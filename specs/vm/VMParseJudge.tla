---------------------------- MODULE VMParseJudge ----------------------------
(* Judge of C09: TLC reads cases.ndjson - inputs together with what the real  *)
(* code returned - and decides for every case whether the observation is      *)
(* allowed by VMParse / Standard.  Record fields (all always present):        *)
(*   id, k (kind), p, q (byte strings), ok1, ok2 (booleans), insts, flags,    *)
(*   which (string), m (number), keys (list of byte strings)                  *)
(* kinds:                                                                     *)
(*   "parse": vm.ParseProgram(p) returned ok1 and the instruction list insts  *)
(*   "rt"   : vm.Disassemble(p) succeeded = ok1; vm.Assemble(text) succeeded  *)
(*            = ok2 and gave q                                                *)
(*   "recog": flags = <<IsP2WPKHScript, IsP2WSHScript, IsStraightforward,     *)
(*            IsP2WScript, IsBCRPScript, IsCallContractScript>> of p          *)
(*   "build": builder `which` applied to p (hash / contract / comment), keys, *)
(*            m returned q (ok1 = no error)                                   *)
(*   "extract": helper `which` applied to program p returned q (ok1)          *)
(* The verdict is "ok" or the class of the disagreement.                      *)
EXTENDS Standard, VMGas, Json, TLC

Cases == ndJsonDeserialize("cases.ndjson")

ParseVerdict(c) ==
  LET r == ParseProgram(c.p) IN
  IF r.ok # c.ok1 THEN (IF r.ok THEN "parse:rejects-parsable" ELSE "parse:accepts-unparsable")
  ELSE IF r.ok /\ r.insts # c.insts THEN "parse:instructions-differ"
  ELSE IF ~Tiles(c.p) THEN "parse:no-tiling"
  ELSE "ok"

KindAt(insts, k) == IF k < 1 \/ k > Len(insts) THEN "length"
                    ELSE IF IsPushOp(insts[k].op) THEN "push" ELSE IF IsJumpOp(insts[k].op) THEN "jump" ELSE "op"

RoundTripVerdict(c) ==
  LET r == ParseProgram(c.p) IN
  IF ~r.ok THEN (IF c.ok1 THEN "roundtrip:disassembles-unparsable" ELSE "ok")
  ELSE IF ~c.ok1 THEN "roundtrip:disassemble-fails"
  ELSE LET cause == IF HasOffBoundaryJump(r.insts, Len(c.p)) THEN "jump-target-not-an-instruction"
                    ELSE IF \E k \in 1..Len(r.insts) : ~IsDefinedOp(r.insts[k].op) THEN "undefined-opcode"
                    ELSE IF HasEmptyPushdataN(r.insts) THEN "empty-pushdata" ELSE "other" IN
       IF ~c.ok2 THEN "roundtrip:assemble-fails:" \o cause
       ELSE LET r2 == ParseProgram(c.q) IN
            IF ~r2.ok THEN "roundtrip:reassembled-unparsable:" \o cause
            ELSE LET d == FirstDiff(r.insts, Len(c.p), r2.insts, Len(c.q)) IN
                 IF d = 0 THEN "ok"
                 ELSE "roundtrip:differs:" \o KindAt(r.insts, d) \o ":" \o cause

RecogName(k) == CASE k = 1 -> "p2wpkh" [] k = 2 -> "p2wsh" [] k = 3 -> "straightforward" [] k = 4 -> "p2wscript" [] k = 5 -> "bcrp" [] k = 6 -> "callcontract"
RecogRef(p) == <<IsP2WPKH(p), IsP2WSH(p), IsStraightforward(p), IsP2WScript(p), IsBCRP(p), IsCallContract(p)>>
RecogVerdict(c) ==
  LET e == RecogRef(c.p)
      D == {k \in 1..6 : e[k] # c.flags[k]} IN
  IF D = {} THEN "ok"
  ELSE LET k == CHOOSE x \in D : \A y \in D : x <= y IN
       "recogniser:" \o RecogName(k) \o (IF c.flags[k] THEN ":accepts-what-no-builder-emits" ELSE ":rejects-builder-output")

BuildRef(c) ==
  CASE c.which = "p2wpkh" -> P2WPKH(c.p)
    [] c.which = "p2wsh" -> P2WSH(c.p)
    [] c.which = "register" -> Register(c.p)
    [] c.which = "call" -> CallContract(c.p)
    [] c.which = "retire" -> Retire(c.p)
    [] c.which = "coinbase" -> Coinbase
    [] c.which = "p2pkhsig" -> P2PKHSig(c.p)
    [] c.which = "p2sh" -> P2SH(c.p)
    [] c.which = "multisig" -> MultiSig(c.keys, c.m)
BuildVerdict(c) ==
  IF c.which = "multisig" /\ ~MultiSigOK(c.m, Len(c.keys))
    THEN (IF c.ok1 THEN "builder:multisig:accepts-bad-quorum" ELSE "ok")
  ELSE IF ~c.ok1 THEN "builder:" \o c.which \o ":fails"
  ELSE IF c.q # BuildRef(c) THEN "builder:" \o c.which \o ":bytes-differ"
  ELSE "ok"

(* helpers that take a standard program apart; only judged on programs the recognisers accept *)
ExtractVerdict(c) ==
  CASE c.which = "hash" -> IF (IsP2WPKH(c.p) \/ IsP2WSH(c.p)) /\ (~c.ok1 \/ c.q # HashOfStandard(c.p)) THEN "extract:hash" ELSE "ok"
    [] c.which = "contract" -> IF IsBCRP(c.p) /\ (~c.ok1 \/ c.q # ContractOf(c.p)) THEN "extract:contract" ELSE "ok"
    [] c.which = "contracthash" -> IF IsCallContract(c.p) /\ (~c.ok1 \/ c.q # ContractHashOf(c.p)) THEN "extract:contracthash" ELSE "ok"
    [] c.which = "convert-p2pkh" -> IF IsP2WPKH(c.p) /\ (~c.ok1 \/ c.q # P2PKHSig(HashOfStandard(c.p))) THEN "extract:convert-p2pkh" ELSE "ok"
    [] c.which = "convert-p2sh" -> IF IsP2WSH(c.p) /\ (~c.ok1 \/ c.q # P2SH(HashOfStandard(c.p))) THEN "extract:convert-p2sh" ELSE "ok"

Verdict(c) == CASE c.k = "parse" -> ParseVerdict(c)
                [] c.k = "rt" -> RoundTripVerdict(c)
                [] c.k = "recog" -> RecogVerdict(c)
                [] c.k = "build" -> BuildVerdict(c)
                [] c.k = "extract" -> ExtractVerdict(c)

VARIABLES blk, n
NBlocks == 64
Init == blk \in 1..NBlocks /\ n = 0
Judge == /\ n = 0
         /\ \E k \in 1..Len(Cases) :
              /\ k % NBlocks = blk - 1
              /\ n' = k
              /\ PrintT("EXPORT " \o ToJson([id |-> Cases[k].id, v |-> Verdict(Cases[k])]))
         /\ UNCHANGED blk
Next == Judge
=============================================================================
