------------------------------- MODULE VMRun -------------------------------
(* The VM as a state machine (one step = one instruction, or the return of a  *)
(* CHECKPREDICATE child), run by TLC on every case of cases.ndjson.           *)
(* A case is the input of vm.Verify:                                          *)
(*   [id, prog, args, state, limit, cx, H, S]   (cx: index into ctxs.ndjson)   *)
(* (ctx: context values; H, S: hash / signature facts, see VMOps).            *)
(* For every case TLC computes the reference execution and exports            *)
(*   [id, err, gas, steps]   steps[k] = [d, pc, gas, op, data, fin, shown, ds, dphi, unpaid] *)
(* in the format of the implementation's own step trace (vm.TraceOut): depth, *)
(* pc, remaining gas and opcode before the instruction, data stack after it   *)
(* (shown only if the instruction completed and is not an expansion opcode).  *)
(* dphi is the decrease of the potential Phi caused by a completed            *)
(* instruction, unpaid the cost of items a failed settlement did not pay for. *)
(* The driver compares the real execution with this export.                   *)
(* TLC also checks the gas discipline on every state it computes (C07).       *)
EXTENDS VMOps, Json, TLC

RawCases == ndJsonDeserialize("cases.ndjson")
Ctxs == ndJsonDeserialize("ctxs.ndjson")      \* contexts are shared: a case names its context by index cx
NCases == Len(RawCases)
Case(k) == RawCases[k] @@ [ctx |-> Ctxs[RawCases[k].cx]]

VARIABLES cid,    \* index of the case
          frs,    \* stack of frames, the running one last
          hist,   \* step records so far
          done,
          res

vars == <<cid, frs, hist, done, res>>

RECURSIVE PushAltSeq(_, _, _)
PushAltSeq(f, xs, k) == IF k > Len(xs) \/ ~Ok(f) THEN f ELSE PushAltSeq(PushAltI(f, xs[k]), xs, k + 1)

(* vm.Verify: state data onto the alt stack, arguments onto the data stack, all charged *)
InitFrame(c) ==
  LET f0 == NewFrame(c.prog, <<>>, <<>>, c.limit, 0, c.ctx.expres)
  IN PushSeqI(PushAltSeq(f0, c.state, 1), c.args, 1)

NoRes == [err |-> "", gas |-> 0]

(* Initial states are blocks of cases (cid = -b): computing initial states is sequential in *)
(* TLC, so the cases themselves are started by the Start action, in parallel.              *)
NBlocks == 64
Init == /\ cid \in {0 - b : b \in 1..NBlocks}
        /\ hist = <<>> /\ frs = <<>> /\ done = FALSE /\ res = NoRes

Start ==
  /\ cid < 0
  /\ \E k \in 1..NCases :
       /\ k % NBlocks = (0 - cid) - 1
       /\ cid' = k
       /\ hist' = <<>>
       /\ IF Case(k).ctx.vmver # 1
            THEN /\ frs' = <<>> /\ done' = TRUE
                 /\ res' = [err |-> "unsupported", gas |-> Case(k).limit]
                 /\ PrintT("EXPORT " \o ToJson([id |-> Case(k).id, err |-> "unsupported",
                                                gas |-> Case(k).limit, steps |-> <<>>]))
            ELSE /\ frs' = <<InitFrame(Case(k))>> /\ done' = FALSE /\ res' = NoRes

TopF == frs[Len(frs)]
Running(f) == Ok(f) /\ f.pc < Len(f.prog)
SetTop(f) == [frs EXCEPT ![Len(frs)] = f]

Entry(f, i, fin, shown, g) ==
  [d |-> f.depth, pc |-> f.pc, gas |-> f.gas, op |-> i.op, data |-> i.data, fin |-> fin, shown |-> shown,
   ds |-> IF shown THEN g.ds ELSE <<>>, dphi |-> IF fin THEN Phi(f) - Phi(g) ELSE 0, unpaid |-> g.unpaid]

(* one instruction of the running frame *)
Exec ==
  /\ cid > 0 /\ ~done /\ Running(TopF)
  /\ LET f == TopF
         c == Case(cid)
         i == ParseOp(f.prog, f.pc)
     IN IF ~i.ok
          THEN /\ frs' = SetTop(Fail(f, "parse")) /\ UNCHANGED hist      \* fails before anything is traced
          ELSE LET f0 == [f EXCEPT !.npc = f.pc + i.len, !.def = 0, !.pend = 0, !.phi0 = Phi(f)] IN
            IF ~IsDefinedOp(i.op)
              THEN \* expansion opcode: a NOP unless expansion is reserved
                   LET g == IF f.expres THEN Fail(f0, "disallowed")
                            ELSE LET h == Charge(f0, BaseCost(i.op)) IN IF Ok(h) THEN [h EXCEPT !.pc = h.npc] ELSE h
                   IN /\ frs' = SetTop(g) /\ hist' = Append(hist, Entry(f, i, Ok(g), FALSE, g))
            ELSE IF i.op = 192
              THEN LET e == CPEnter(f0) IN
                   IF ~Ok(e.f)
                     THEN /\ frs' = SetTop(e.f) /\ hist' = Append(hist, Entry(f, i, FALSE, FALSE, e.f))
                     ELSE /\ frs' = Append(SetTop([e.f EXCEPT !.hidx = Len(hist) + 1]), e.child)
                          /\ hist' = Append(hist, Entry(f, i, FALSE, FALSE, e.f))
              ELSE LET g == Settle(ExecOp(f0, i, c))
                   IN /\ frs' = SetTop(g) /\ hist' = Append(hist, Entry(f, i, Ok(g), Ok(g), g))
  /\ UNCHANGED <<cid, done, res>>

(* the running frame is a finished child: back to its parent *)
Return ==
  /\ cid > 0 /\ ~done /\ ~Running(TopF) /\ Len(frs) > 1
  /\ LET ch == TopF
         p  == frs[Len(frs) - 1]
         g  == IF ch.err = "nohash" THEN Fail(p, "nohash") ELSE CPReturn(p, ch)
         e  == hist[p.hidx]
     IN /\ frs' = [SubSeq(frs, 1, Len(frs) - 1) EXCEPT ![Len(frs) - 1] = [g EXCEPT !.hidx = 0]]
        /\ hist' = [hist EXCEPT ![p.hidx] = [e EXCEPT !.fin = Ok(g), !.shown = Ok(g),
                                                      !.ds = IF Ok(g) THEN g.ds ELSE <<>>,
                                                      !.dphi = IF Ok(g) THEN p.phi0 - Phi(g) ELSE 0,
                                                      !.unpaid = g.unpaid]]
  /\ UNCHANGED <<cid, done, res>>

Finish ==
  /\ cid > 0 /\ ~done /\ ~Running(TopF) /\ Len(frs) = 1
  /\ LET f == TopF
         e == IF ~Ok(f) THEN f.err
              ELSE IF f.ds = <<>> \/ ~AsBool(f.ds[Len(f.ds)]) THEN "false" ELSE "none"
     IN /\ res' = [err |-> e, gas |-> f.gas]
        /\ PrintT("EXPORT " \o ToJson([id |-> Case(cid).id, err |-> e, gas |-> f.gas, steps |-> hist]))
  /\ done' = TRUE
  /\ UNCHANGED <<cid, frs, hist>>

Next == Start \/ Exec \/ Return \/ Finish
Spec == Init /\ [][Next]_vars

(* ---- gas discipline, checked by TLC on every state of every reference execution (C07) ---- *)
GasNonNeg == \A k \in 1..Len(frs) : frs[k].gas >= 0
(* the running machine never holds more than it was given: Phi <= limit at top level *)
PhiBounded == (cid > 0 /\ Len(frs) = 1 /\ frs[1].hidx = 0) => Phi(frs[1]) <= Case(cid).limit
ResultBounded == (cid > 0 /\ done /\ res # NoRes) => (res.gas >= 0 /\ res.gas <= Case(cid).limit)
(* a child never returns more than it received *)
ChildBounded == \A k \in 2..Len(frs) : Phi(frs[k]) <= frs[k - 1].phi0
=============================================================================
