------------------------------ MODULE VMValues ------------------------------
(* Views of VM stack items.  An item is a byte string (sequence of 0..255).   *)
(*  - boolean view: false iff every byte is zero (the empty string is false)  *)
(*  - number view : little-endian unsigned, at most 32 bytes, value < 2^255;  *)
(*                  results are encoded minimally (zero is the empty string)  *)
(*  - "int64" view: a number that is at most 2^63-1 (sizes, counts, indexes)  *)
(* Decoding failures are the classes "badvalue" (too long / not an int64) and *)
(* "range" (2^255 or more).                                                   *)
EXTENDS VMNat

AsBool(b) == \E i \in 1..Len(b) : b[i] # 0
BoolBytes(t) == IF t THEN <<1>> ELSE <<>>

InRange255(v) == NFitsBits(v, 255)      \* v < 2^255
FitsInt64(v)  == NFitsBits(v, 63)       \* v <= 2^63-1
FitsUint64(v) == NFitsBits(v, 64)

NoErr == "none"
(* [err, v]: v is the trimmed digit sequence = the value *)
DecodeNum(b) == IF Len(b) > 32 THEN [err |-> "badvalue", v |-> <<>>]
                ELSE LET v == NTrim(b) IN
                     IF InRange255(v) THEN [err |-> NoErr, v |-> v] ELSE [err |-> "range", v |-> <<>>]
(* minimal little-endian encoding of a value: its trimmed digit sequence *)
EncodeNum(v) == v

RVal(b)  == [err |-> NoErr, v |-> b]
RErr(e)  == [err |-> e, v |-> <<>>]
RNum(v)  == IF InRange255(v) THEN RVal(EncodeNum(v)) ELSE RErr("range")
RBool(t) == RVal(BoolBytes(t))

N256 == <<0, 1>>     \* the number 256

(* ---- reference results of the numeric opcodes on decoded operands x, y ---- *)
RefAdd(x, y) == RNum(NAdd(x, y))
RefSub(x, y) == IF NLt(x, y) THEN RErr("range") ELSE RNum(NSub(x, y))
RefMul(x, y) == RNum(NMul(x, y))
RefDiv(x, y) == IF NIsZero(y) THEN RErr("divzero") ELSE RNum(NDivMod(x, y).q)
RefMod(x, y) == IF NIsZero(y) THEN RErr("divzero") ELSE RNum(NDivMod(x, y).r)
(* shifts work on the 256-bit word: amounts of 256 or more give 0; a left shift keeps *)
(* the low 256 bits and the result must still be below 2^255                          *)
RefLsh(x, y) == IF NLt(y, N256) THEN RNum(NLowBytes(NShl(x, NToInt(y)), 32)) ELSE RNum(NZero)
RefRsh(x, y) == IF NLt(y, N256) THEN RNum(NShr(x, NToInt(y))) ELSE RNum(NZero)
RefMin(x, y) == RNum(IF NLt(y, x) THEN y ELSE x)
RefMax(x, y) == RNum(IF NLt(x, y) THEN y ELSE x)
RefNumEq(x, y) == RBool(x = y)
RefNumNe(x, y) == RBool(x # y)
RefLt(x, y) == RBool(NLt(x, y))
RefGt(x, y) == RBool(NLt(y, x))
RefLe(x, y) == RBool(NLe(x, y))
RefGe(x, y) == RBool(NLe(y, x))

Ref1Add(x) == RNum(NAdd(x, <<1>>))
Ref1Sub(x) == IF NIsZero(x) THEN RErr("range") ELSE RNum(NSub(x, <<1>>))
Ref2Mul(x) == RNum(NAdd(x, x))
Ref2Div(x) == RNum(NShr(x, 1))
RefNot(x)  == RBool(NIsZero(x))
Ref0Ne(x)  == RBool(~NIsZero(x))

(* ---- byte-string results ---- *)
ByteAt(b, i) == IF i <= Len(b) THEN b[i] ELSE 0
=============================================================================
