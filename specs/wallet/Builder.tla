------------------------------ MODULE Builder ------------------------------
(* C27 -- transactions built by the wallet (blockchain/txbuilder, account/builder.go).   *)
(*                                                                                      *)
(* A case is a record                                                                   *)
(*   accounts : sequence of [name, progs, quorum, nkeys]   programs owned, M-of-N keys    *)
(*   cosigners: sequence of [acct, order]      for every multi-key account the key        *)
(*              holders (positions 1..nkeys) that sign, in signing order: ANY quorum of   *)
(*              distinct holders, in ANY order, must yield a fully signed, valid tx       *)
(*   funding  : sequence of [id, acct, asset, amt, prog]   unspent outputs in the wallet*)
(*   actions  : sequence of                                                              *)
(*        [kind |-> "spend",      acct, asset, amt]        (already merged per acct/asset)*)
(*        [kind |-> "spend_utxo", utxo]                                                  *)
(*        [kind |-> "pay",        asset, amt, prog, out]   out = "normal" | "vote"       *)
(*        [kind |-> "retire",     asset, amt]                                            *)
(*   built, signed, valid : what Build / Sign / validation.ValidateTx did                *)
(*   tx : [inputs : sequence of funding ids ("?" = not a wallet output),                 *)
(*         outputs : sequence of [asset, amt, prog, out]]   out = "normal"|"vote"|"retire"*)
(* Amounts are LedgerBigNat numbers; "BTM" is the fee asset.                             *)
(* Every action record carries all fields (unused ones are "" / <<>>).                   *)
EXTENDS LedgerBigNat, FiniteSets

MinFee == BNOf(10000000)      \* the request leaves at least 0.1 BTM of fee (enough gas for these sizes)

Idx(s) == 1..Len(s)
RECURSIVE SumAmt(_, _)
SumAmt(s, I) == IF I = {} THEN <<>> ELSE LET i == CHOOSE x \in I : TRUE IN BNAdd(s[i].amt, SumAmt(s, I \ {i}))

Spends(c) == {i \in Idx(c.actions) : c.actions[i].kind = "spend"}
Picks(c) == {i \in Idx(c.actions) : c.actions[i].kind = "spend_utxo"}
Recips(c) == {i \in Idx(c.actions) : c.actions[i].kind \in {"pay", "retire"}}
FundIdx(c, id) == CHOOSE k \in Idx(c.funding) : c.funding[k].id = id
KnownUtxo(c, id) == \E k \in Idx(c.funding) : c.funding[k].id = id
Assets(c) == {c.funding[k].asset : k \in Idx(c.funding)} \cup {c.actions[i].asset : i \in Spends(c) \cup Recips(c)}
ProgsOf(c, a) == LET k == CHOOSE j \in Idx(c.accounts) : c.accounts[j].name = a IN
                 {c.accounts[k].progs[j] : j \in Idx(c.accounts[k].progs)}

(* ---- preconditions on the request (what "the wallet can fund" means here) *)
(* one spend per (account, asset); picked outputs exist, are distinct and belong to no spend's account/asset *)
WellScoped(c) ==
  /\ \A i, j \in Spends(c) : i # j => ~(c.actions[i].acct = c.actions[j].acct /\ c.actions[i].asset = c.actions[j].asset)
  /\ \A i \in Picks(c) : KnownUtxo(c, c.actions[i].utxo)
  /\ \A i, j \in Picks(c) : i # j => c.actions[i].utxo # c.actions[j].utxo
  /\ \A i \in Picks(c) : \A j \in Spends(c) :
        LET u == c.funding[FundIdx(c, c.actions[i].utxo)] IN ~(u.acct = c.actions[j].acct /\ u.asset = c.actions[j].asset)
  /\ \A i \in Spends(c) \cup Recips(c) : c.actions[i].amt # <<>>
Available(c, a, s) == {k \in Idx(c.funding) : c.funding[k].acct = a /\ c.funding[k].asset = s}
Fundable(c) == \A i \in Spends(c) : BNLe(c.actions[i].amt, SumAmt(c.funding, Available(c, c.actions[i].acct, c.actions[i].asset)))
Requested(c, s) == BNAdd(SumAmt(c.actions, {i \in Spends(c) : c.actions[i].asset = s}),
                         SumAmt(c.funding, {FundIdx(c, c.actions[i].utxo) : i \in {j \in Picks(c) : c.funding[FundIdx(c, c.actions[j].utxo)].asset = s}}))
Promised(c, s) == SumAmt(c.actions, {i \in Recips(c) : c.actions[i].asset = s})
Balanced(c) == \A s \in Assets(c) :
                 IF s = "BTM" THEN BNLe(BNAdd(Promised(c, s), MinFee), Requested(c, s))
                 ELSE Requested(c, s) = Promised(c, s)

(* the signing plan is a legitimate one: every multi-key account has exactly one plan of exactly *)
(* quorum distinct holders of that account                                                       *)
AcctOf(c, a) == c.accounts[CHOOSE j \in Idx(c.accounts) : c.accounts[j].name = a]
SignersOk(c) ==
  /\ \A j \in Idx(c.accounts) : c.accounts[j].nkeys > 1 =>
        Cardinality({k \in Idx(c.cosigners) : c.cosigners[k].acct = c.accounts[j].name}) = 1
  /\ \A k \in Idx(c.cosigners) :
        LET a == AcctOf(c, c.cosigners[k].acct)   o == c.cosigners[k].order IN
        /\ Len(o) = a.quorum
        /\ \A x \in Idx(o) : o[x] \in 1..a.nkeys
        /\ \A x, y \in Idx(o) : x # y => o[x] # o[y]

(* ---- the post-condition of a built template *)
InputsOk(c) ==
  /\ \A i \in Idx(c.tx.inputs) : KnownUtxo(c, c.tx.inputs[i])
  /\ \A i, j \in Idx(c.tx.inputs) : i # j => c.tx.inputs[i] # c.tx.inputs[j]
  /\ \A i \in Idx(c.tx.inputs) :
        LET u == c.funding[FundIdx(c, c.tx.inputs[i])] IN
        \/ \E j \in Picks(c) : c.actions[j].utxo = u.id
        \/ \E j \in Spends(c) : c.actions[j].acct = u.acct /\ c.actions[j].asset = u.asset
  /\ \A j \in Picks(c) : \E i \in Idx(c.tx.inputs) : c.tx.inputs[i] = c.actions[j].utxo

WantOut(a) == [asset |-> a.asset, amt |-> a.amt, prog |-> IF a.kind = "retire" THEN "" ELSE a.prog,
               out |-> IF a.kind = "retire" THEN "retire" ELSE a.out]
SeenOut(o) == [asset |-> o.asset, amt |-> o.amt, prog |-> IF o.out = "retire" THEN "" ELSE o.prog, out |-> o.out]
Count(S, f(_), v) == Cardinality({i \in S : f(i) = v})
(* recipients are a sub-multiset of the outputs: exactly as requested *)
RecipientsPaid(c) ==
  \A i \in Recips(c) :
     LET w == WantOut(c.actions[i]) IN
     Count(Recips(c), LAMBDA j : WantOut(c.actions[j]), w) <= Count(Idx(c.tx.outputs), LAMBDA j : SeenOut(c.tx.outputs[j]), w)
(* the outputs beyond the recipients: per distinct value, (count in outputs - count requested) copies are change *)
ExtraCopies(c, j) ==
  LET v == SeenOut(c.tx.outputs[j]) IN
  Count(Idx(c.tx.outputs), LAMBDA k : SeenOut(c.tx.outputs[k]), v) - Count(Recips(c), LAMBDA k : WantOut(c.actions[k]), v)
IsExtra(c, j) ==    \* the last ExtraCopies(c, j) outputs of that value are taken as the change copies
  LET v == SeenOut(c.tx.outputs[j])
      later == Cardinality({k \in Idx(c.tx.outputs) : k > j /\ SeenOut(c.tx.outputs[k]) = v})
  IN later < ExtraCopies(c, j)
Extras(c) == {j \in Idx(c.tx.outputs) : IsExtra(c, j)}
SpendersOf(c, s) == {c.actions[i].acct : i \in {k \in Spends(c) : c.actions[k].asset = s}}
ChangeOk(c) ==
  \A j \in Extras(c) :
     /\ c.tx.outputs[j].out = "normal"
     /\ \E a \in SpendersOf(c, c.tx.outputs[j].asset) : c.tx.outputs[j].prog \in ProgsOf(c, a)
(* each spending account is debited exactly what was requested: its inputs minus its change *)
DebitOk(c) ==
  \A i \in Spends(c) :
     LET a == c.actions[i].acct   s == c.actions[i].asset
         ins == {k \in Idx(c.funding) : c.funding[k].acct = a /\ c.funding[k].asset = s
                                        /\ \E n \in Idx(c.tx.inputs) : c.tx.inputs[n] = c.funding[k].id}
         chg == {j \in Extras(c) : c.tx.outputs[j].asset = s /\ c.tx.outputs[j].prog \in ProgsOf(c, a)}
     IN SumAmt(c.funding, ins) = BNAdd(c.actions[i].amt, SumAmt(c.tx.outputs, chg))
InSum(c, s) == SumAmt(c.funding, {FundIdx(c, c.tx.inputs[i]) : i \in {n \in Idx(c.tx.inputs) : c.funding[FundIdx(c, c.tx.inputs[n])].asset = s}})
OutSum(c, s) == SumAmt(c.tx.outputs, {j \in Idx(c.tx.outputs) : c.tx.outputs[j].asset = s})
(* fee = inputs - outputs for BTM = what the request left over; other assets balanced when the request is *)
FeeOk(c) == /\ BNLe(OutSum(c, "BTM"), InSum(c, "BTM"))
            /\ BNAdd(OutSum(c, "BTM"), BNSub(Requested(c, "BTM"), Promised(c, "BTM"))) = InSum(c, "BTM")
Conserved(c) == \A s \in Assets(c) \ {"BTM"} : InSum(c, s) = OutSum(c, s)

TemplateOk(c) == InputsOk(c) /\ RecipientsPaid(c) /\ ChangeOk(c) /\ DebitOk(c)

(* the whole property for one case; every conjunct is reported separately by the judge *)
Rules(c) ==
  [scoped    |-> WellScoped(c),
   fundable  |-> Fundable(c),
   balanced  |-> Balanced(c),
   built     |-> (WellScoped(c) /\ Fundable(c)) => c.built,
   notbuilt  |-> (WellScoped(c) /\ ~Fundable(c)) => ~c.built,
   inputs    |-> c.built => InputsOk(c),
   recipients|-> c.built => RecipientsPaid(c),
   change    |-> (c.built /\ InputsOk(c)) => ChangeOk(c),
   debit     |-> (c.built /\ InputsOk(c)) => DebitOk(c),
   fee       |-> (c.built /\ InputsOk(c) /\ WellScoped(c) /\ BNLe(Promised(c, "BTM"), Requested(c, "BTM"))) => FeeOk(c),
   conserved |-> (c.built /\ InputsOk(c) /\ WellScoped(c) /\ Balanced(c)) => Conserved(c),
   signers   |-> SignersOk(c),
   signed    |-> (c.built /\ SignersOk(c)) => c.signed,
   valid     |-> (c.built /\ SignersOk(c) /\ WellScoped(c) /\ Balanced(c)) => c.valid]
Ok(c) == LET r == Rules(c) IN
         r.built /\ r.notbuilt /\ r.inputs /\ r.recipients /\ r.change /\ r.debit /\ r.fee /\ r.conserved /\ r.signed /\ r.valid
=============================================================================
