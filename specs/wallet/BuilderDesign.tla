---------------------------- MODULE BuilderDesign ----------------------------
(* Design check of Builder.tla on a small abstract template space: whenever a      *)
(* template satisfies the wallet post-condition (inputs from the funding set of    *)
(* the spending accounts, recipients paid exactly, everything else change of the   *)
(* spenders, each spender debited exactly the requested amount) for a balanced     *)
(* request, value is conserved: non-BTM inputs = outputs and BTM inputs - outputs  *)
(* = the fee the request left (property C01 for the built transaction).            *)
EXTENDS Builder, TLC

CONSTANTS MaxOuts, Units       \* outputs per template; amounts are k * 10^7, k \in Units

U(k) == BNOf(k * 10000000)
Accounts == <<[name |-> "a", progs |-> <<"pa", "pa2">>], [name |-> "b", progs |-> <<"pb">>]>>
Funding == <<[id |-> "u1", acct |-> "a", asset |-> "BTM", amt |-> U(3), prog |-> "pa"],
             [id |-> "u2", acct |-> "a", asset |-> "A1", amt |-> U(2), prog |-> "pa2"],
             [id |-> "u3", acct |-> "b", asset |-> "BTM", amt |-> U(2), prog |-> "pb"],
             [id |-> "u4", acct |-> "a", asset |-> "BTM", amt |-> U(1), prog |-> "pa2"]>>
Act(kind, acct, asset, amt, prog, out) == [kind |-> kind, acct |-> acct, asset |-> asset, amt |-> amt, prog |-> prog, out |-> out, utxo |-> ""]
ActionLists ==
  {<<Act("spend", "a", "BTM", U(x), "", ""), Act("pay", "", "BTM", U(z), p, "normal")>> : x \in Units, z \in Units, p \in {"pb", "pa", "ext"}}
  \cup {<<Act("spend", "a", "BTM", U(x), "", ""), Act("spend", "a", "A1", U(y), "", ""), Act("pay", "", "A1", U(y), "pb", "normal"),
          Act("retire", "", "BTM", U(z), "", "retire")>> : x \in Units, y \in {1, 2}, z \in Units}
  \cup {<<Act("spend", "a", "BTM", U(x), "", ""), Act("spend", "b", "BTM", U(y), "", ""), Act("pay", "", "BTM", U(z), "ext", "normal")>>
          : x \in Units, y \in {1, 2}, z \in Units}
OutUniverse == [asset : {"BTM", "A1"}, amt : {U(k) : k \in Units}, prog : {"pa", "pb", "ext"}, out : {"normal"}]
                 \cup [asset : {"BTM"}, amt : {U(k) : k \in Units}, prog : {""}, out : {"retire"}]
RECURSIVE OutSeqs(_)
OutSeqs(n) == IF n = 0 THEN {<<>>} ELSE OutSeqs(n - 1) \cup {Append(s, o) : s \in {t \in OutSeqs(n - 1) : Len(t) = n - 1}, o \in OutUniverse}
InputSets == {<<>>, <<"u1">>, <<"u1", "u2">>, <<"u1", "u4">>, <<"u1", "u3">>, <<"u4">>, <<"u1", "u2", "u4">>, <<"u1", "u3", "u4">>, <<"u3">>, <<"u2">>}

VARIABLE c
DInit == c \in [id : {0}, accounts : {Accounts}, funding : {Funding}, actions : ActionLists, built : {TRUE}, signed : {TRUE},
                valid : {TRUE}, tx : [inputs : InputSets, outputs : OutSeqs(MaxOuts)]]
DNext == FALSE /\ UNCHANGED c
(* the theorem *)
PostImpliesConservation ==
  (WellScoped(c) /\ Balanced(c) /\ TemplateOk(c)) => (Conserved(c) /\ FeeOk(c))
(* and the post-condition is not vacuous: some template of the space satisfies it (checked as a reachable-state count in the check) *)
Witness == ~(WellScoped(c) /\ Balanced(c) /\ TemplateOk(c) /\ Len(c.tx.outputs) = MaxOuts)
=============================================================================
