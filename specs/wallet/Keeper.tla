------------------------------- MODULE Keeper -------------------------------
(* Specification of the wallet's UTXO reservation keeper                      *)
(* (account/utxo_keeper.go) -- property C26.                                  *)
(*                                                                            *)
(* The UTXO universe U is fixed: each output has an account, asset, vote key, *)
(* amount, valid height and is present as confirmed ("conf"), unconfirmed     *)
(* ("unconf") or both ("both": the state between the wallet attaching a block *)
(* and processing the pool's removal event).  It is ONE output however often  *)
(* it is listed.  Reserve is nondeterministic: ANY set of distinct,           *)
(* unreserved, mature, visible outputs of the requested account/asset/vote    *)
(* key whose amounts sum to at least the request; change = excess.  Failure   *)
(* class from the totals: insufficient < immature < reserved.                 *)
(* Every action takes the observed result as an argument and is enabled iff   *)
(* the property allows that result (used directly by the trace specification; *)
(* the generator instance enumerates the allowed results).                    *)
EXTENDS Integers, Sequences, FiniteSets, TLC

CONSTANTS U,          \* [name -> [acct, asset, vote, amt, vh, where]]
          Height,     \* current block height (fixed)
          DupCounts   \* FALSE: the property. TRUE: defect model in which an output listed as confirmed
                      \* AND unconfirmed is counted (and may be picked) twice -- used only to classify
                      \* a rejected trace, never to accept one.

VARIABLES where,      \* [name -> "none" | "conf" | "unconf" | "both"]: how the output is listed now. It starts as U says and
                      \* moves with the pool and the chain: AddUnconfirmedUtxo, RemoveUnconfirmedUtxo (the pool's removal
                      \* event, also sent when the transaction was confirmed), the wallet writing a confirmed record
          reserved,   \* [name -> rid or 0]
          resv,       \* [rid -> [utxos : SUBSET names, exp : Nat]] live reservations
          used,       \* reservation ids handed out so far
          last        \* last call with its result (generator instance)

vars == <<where, reserved, resv, used, last>>
Names == DOMAIN U

Range(s) == {s[i] : i \in 1..Len(s)}
Count(s, x) == Cardinality({i \in 1..Len(s) : s[i] = x})
RECURSIVE SumSeq(_)
SumSeq(s) == IF s = <<>> THEN 0 ELSE U[Head(s)].amt + SumSeq(Tail(s))
RECURSIVE SumSet(_, _)
SumSet(S, unc) == IF S = {} THEN 0
                  ELSE LET x == CHOOSE y \in S : TRUE IN
                       U[x].amt * (IF DupCounts /\ unc /\ where[x] = "both" THEN 2 ELSE 1) + SumSet(S \ {x}, unc)

Visible(u, unc) == where[u] \in {"conf", "both"} \/ (unc /\ where[u] \in {"unconf", "both"})
Mature(u) == U[u].vh <= Height
Copies(u, unc) == IF DupCounts /\ unc /\ where[u] = "both" THEN 2 ELSE 1
Match(acct, asset, vote, unc) ==
  {u \in Names : U[u].acct = acct /\ U[u].asset = asset /\ U[u].vote = vote /\ Visible(u, unc)}

Where0 == [u \in Names |-> U[u].where]
Init == /\ where = Where0 /\ reserved = [u \in Names |-> 0] /\ resv = <<>> /\ used = {}
        /\ last = [op |-> "init"]

Live == DOMAIN resv
Free(S) == [u \in Names |-> IF u \in S THEN 0 ELSE reserved[u]]
Drop(R) == [r \in Live \ R |-> resv[r]]

(* Failure class demanded by the totals *)
Class(M, amt, unc) ==
  LET avail == {u \in M : Mature(u) /\ reserved[u] = 0}
      held  == {u \in M : Mature(u) /\ reserved[u] # 0}
      imm   == {u \in M : ~Mature(u)} IN
  IF SumSet(avail, unc) + SumSet(held, unc) + SumSet(imm, unc) < amt THEN "insufficient"
  ELSE IF SumSet(avail, unc) + SumSet(held, unc) < amt THEN "immature"
  ELSE IF SumSet(avail, unc) < amt THEN "reserved"
  ELSE "ok"

(* Reserve(acct, asset, amt, unc, vote, exp) returned err / (rid, utxos, change) *)
Reserve(acct, asset, vote, amt, unc, exp, err, rid, utxos, change) ==
  LET M == Match(acct, asset, vote, unc)
      c == Class(M, amt, unc) IN
  /\ amt > 0
  /\ IF c # "ok"
       THEN /\ err = c
            /\ UNCHANGED <<reserved, resv, used>>
       ELSE /\ err = ""
            /\ rid \notin used /\ rid > 0
            /\ Range(utxos) \subseteq {u \in M : Mature(u) /\ reserved[u] = 0}
            /\ \A u \in Range(utxos) : Count(utxos, u) <= Copies(u, unc)      \* distinct outputs
            /\ SumSeq(utxos) >= amt
            /\ change = SumSeq(utxos) - amt
            /\ reserved' = [u \in Names |-> IF u \in Range(utxos) THEN rid ELSE reserved[u]]
            /\ resv' = [r \in Live \cup {rid} |-> IF r = rid THEN [utxos |-> Range(utxos), exp |-> exp] ELSE resv[r]]
            /\ used' = used \cup {rid}

(* ReserveParticular(out, unc, exp); out may be a name outside the universe *)
Particular(u, unc, exp, err, rid, utxos, change) ==
  LET known == u \in Names IN
  IF known /\ reserved[u] # 0
    THEN /\ err \in (IF Visible(u, unc) THEN {"reserved"} ELSE {"reserved", "nomatch"})
         /\ UNCHANGED <<reserved, resv, used>>
  ELSE IF ~known \/ ~Visible(u, unc)
    THEN err = "nomatch" /\ UNCHANGED <<reserved, resv, used>>
  ELSE IF ~Mature(u)
    THEN err = "immature" /\ UNCHANGED <<reserved, resv, used>>
  ELSE /\ err = "" /\ rid \notin used /\ rid > 0
       /\ utxos = <<u>> /\ change = 0
       /\ reserved' = [reserved EXCEPT ![u] = rid]
       /\ resv' = [r \in Live \cup {rid} |-> IF r = rid THEN [utxos |-> {u}, exp |-> exp] ELSE resv[r]]
       /\ used' = used \cup {rid}

Cancel(rid) ==
  IF rid \in Live
    THEN /\ reserved' = Free(resv[rid].utxos) /\ resv' = Drop({rid}) /\ UNCHANGED used
    ELSE UNCHANGED <<reserved, resv, used>>

(* expireReservation(t): every live reservation whose expiry lies before t is cancelled *)
Expire(t) ==
  LET R == {r \in Live : resv[r].exp < t} IN
  /\ reserved' = Free(UNION {resv[r].utxos : r \in R})
  /\ resv' = Drop(R)
  /\ UNCHANGED used

(* The listing of an output changes; who holds it does not: a reservation keeps its outputs however they are   *)
(* listed, until it is cancelled or expires.                                                                    *)
Move(u, op) ==
  /\ u \in Names
  /\ where' = [where EXCEPT ![u] =
        CASE op = "addunc"  -> (IF @ = "conf" THEN "both" ELSE IF @ = "none" THEN "unconf" ELSE @)
          [] op = "rmunc"   -> (IF @ = "both" THEN "conf" ELSE IF @ = "unconf" THEN "none" ELSE @)
          [] op = "confirm" -> (IF @ = "unconf" THEN "both" ELSE IF @ = "none" THEN "conf" ELSE @)]
  /\ UNCHANGED <<reserved, resv, used>>

Pairs == {<<u, reserved[u]>> : u \in {x \in Names : reserved[x] # 0}}

-----------------------------------------------------------------------------
(* The property *)
NoOverlap == \A r1, r2 \in Live : r1 # r2 => resv[r1].utxos \cap resv[r2].utxos = {}
Consistent == /\ \A u \in Names : reserved[u] # 0 <=> \E r \in Live : u \in resv[r].utxos
              /\ \A r \in Live : \A u \in resv[r].utxos : reserved[u] = r
              /\ Live \subseteq used
OnlyMatureVisible == \A r \in Live : \A u \in resv[r].utxos : Mature(u)

-----------------------------------------------------------------------------
(* Generator instance: enumerates calls and, for each, every result the property allows *)
CONSTANTS Keys,      \* set of <<acct, asset, vote>> requests
          Amounts,   \* [key -> set of amounts]
          PNames,    \* outputs used for ReserveParticular (may include a name outside U)
          Exps,      \* abstract expiry times
          MaxRes,    \* bound on successful reservations
          MNames     \* outputs whose listing moves (empty: the static universe)

RECURSIVE SetToSeq(_)
SetToSeq(S) == IF S = {} THEN <<>> ELSE LET x == CHOOSE y \in S : TRUE IN <<x>> \o SetToSeq(S \ {x})

GReserve == \E k \in Keys, unc \in BOOLEAN, e \in Exps : \E amt \in Amounts[k] :
  LET M == Match(k[1], k[2], k[3], unc)
      c == Class(M, amt, unc)
      call == [op |-> "reserve", acct |-> k[1], asset |-> k[2], vote |-> k[3], amt |-> amt, unc |-> unc, exp |-> e] IN
  IF c # "ok"
    THEN /\ Reserve(k[1], k[2], k[3], amt, unc, e, c, 0, <<>>, 0)
         /\ last' = call /\ UNCHANGED where
    ELSE /\ Cardinality(used) < MaxRes
         /\ \E S \in SUBSET {u \in M : Mature(u) /\ reserved[u] = 0} :
              /\ S # {}
              /\ LET us == SetToSeq(S) IN
                 /\ SumSeq(us) >= amt
                 /\ Reserve(k[1], k[2], k[3], amt, unc, e, "", Cardinality(used) + 1, us, SumSeq(us) - amt)
         /\ last' = call /\ UNCHANGED where
GParticular == \E u \in PNames, unc \in BOOLEAN, e \in Exps :
  /\ \E err \in {"", "reserved", "nomatch", "immature"} :
        /\ (err = "" => Cardinality(used) < MaxRes)
        /\ Particular(u, unc, e, err, Cardinality(used) + 1, <<u>>, 0)
  /\ last' = [op |-> "particular", u |-> u, unc |-> unc, exp |-> e] /\ UNCHANGED where
GCancel == \E r \in 1..MaxRes : Cancel(r) /\ last' = [op |-> "cancel", rid |-> r] /\ UNCHANGED where
GExpire == \E t \in Exps \cup {0} : Expire(t + 1) /\ last' = [op |-> "expire", t |-> t + 1] /\ UNCHANGED where
GMove == \E u \in MNames, op \in {"addunc", "rmunc", "confirm"} :
           /\ Move(u, op) /\ where' # where /\ last' = [op |-> op, u |-> u]

Next == GReserve \/ GParticular \/ GCancel \/ GExpire \/ GMove
Spec == Init /\ [][Next]_vars
View == <<where, reserved, resv, used>>

-----------------------------------------------------------------------------
(* The universe used by the configurations (current height 10).                          *)
(*  account A1, asset X, no vote: u1 5 conf, u2 3 BOTH, u3 2 unconf, u4 4 immature conf  *)
(*  u5 other account, u6 other vote key, u7 other asset, u8 BOTH and larger than u1      *)
UU == [n \in {"u1", "u2", "u3", "u4", "u5", "u6", "u7"} |->
        CASE n = "u1" -> [acct |-> "A1", asset |-> "X", vote |-> "",  amt |-> 5, vh |-> 0,  where |-> "conf"]
          [] n = "u2" -> [acct |-> "A1", asset |-> "X", vote |-> "",  amt |-> 3, vh |-> 0,  where |-> "both"]
          [] n = "u3" -> [acct |-> "A1", asset |-> "X", vote |-> "",  amt |-> 2, vh |-> 0,  where |-> "unconf"]
          [] n = "u4" -> [acct |-> "A1", asset |-> "X", vote |-> "",  amt |-> 4, vh |-> 20, where |-> "conf"]
          [] n = "u5" -> [acct |-> "A2", asset |-> "X", vote |-> "",  amt |-> 6, vh |-> 0,  where |-> "conf"]
          [] n = "u6" -> [acct |-> "A1", asset |-> "X", vote |-> "v", amt |-> 7, vh |-> 0,  where |-> "conf"]
          [] n = "u7" -> [acct |-> "A1", asset |-> "Y", vote |-> "",  amt |-> 8, vh |-> 0,  where |-> "both"]]
KeysQ == {<<"A1", "X", "">>, <<"A2", "X", "">>, <<"A1", "X", "v">>, <<"A1", "Y", "">>}
AmountsQ == [k \in KeysQ |-> IF k = <<"A1", "X", "">> THEN {3, 6, 8, 9, 10, 11, 12, 14, 15} ELSE {6, 9}]
KeysM == {<<"A1", "X", "">>}
AmountsM == [k \in KeysM |-> {2, 3, 6}]
AmountsS == [k \in KeysQ |-> IF k = <<"A1", "X", "">> THEN {3, 8, 10, 11, 14} ELSE {6}]
=============================================================================
