----------------------------- MODULE KeeperGen -----------------------------
(* Export wrapper of Keeper: every explored transition is printed with the    *)
(* call sequence that reaches it.  Only the CALLS are exported: which outputs *)
(* a Reserve picks is the implementation's choice, so the real results are    *)
(* judged by TraceKeeper.tla, not compared with the generator's own choice.   *)
EXTENDS Keeper, Json

VARIABLE hist
HInit == Init /\ hist = <<>>
HNext == Next /\ hist' = Append(hist, last')
HView == View
Export == PrintT("EXPORT " \o ToJson(hist'))
(* the universe is exported too, so that the driver builds its UTXO set from the specification *)
ASSUME PrintT("EXPORT " \o ToJson([universe |-> U, height |-> Height]))
=============================================================================
