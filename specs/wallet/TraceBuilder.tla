---------------------------- MODULE TraceBuilder ----------------------------
(* Judges recorded wallet builds (one TLC state per case): every rule of Builder!Rules. *)
EXTENDS Builder, Json, TLC
Cases == ndJsonDeserialize("trace.ndjson")
VARIABLE i
TInit == i \in 1..Len(Cases)
TNext == FALSE /\ UNCHANGED i
Judge == PrintT("EXPORT " \o ToJson([i |-> i, id |-> Cases[i].id, ok |-> Ok(Cases[i]), rules |-> Rules(Cases[i])]))
WellFormed == /\ \A k \in Idx(Cases[i].funding) : BNIs(Cases[i].funding[k].amt)
              /\ \A k \in Idx(Cases[i].tx.outputs) : BNIs(Cases[i].tx.outputs[k].amt)
              /\ \A k \in Idx(Cases[i].actions) : BNIs(Cases[i].actions[k].amt)
=============================================================================
