---------------------------- MODULE TraceKeeper ----------------------------
(* Trace validation of executions of the real utxoKeeper (harness/cmd/c26).   *)
(* Sequential executions log one line per call:                               *)
(*   call  op, arguments, result (err class, rid, utxos, amts, change) and a  *)
(*         snapshot of the keeper's tables after the call (snap, rs)          *)
(* Concurrent executions log begin / end per call and thread (the begin line  *)
(* already carries the result the call eventually returned) and a final       *)
(* snap line; TLC searches for a linearisation: the silent step TLin(th)      *)
(* applies the call of thread th somewhere between its begin and its end.     *)
(* Every line carries every field, plus tr / nr (checks/tvlib.py).            *)
EXTENDS Keeper, Json

CONSTANT Threads
VARIABLES l, sk, pend
Trace == ndJsonDeserialize("trace.ndjson")
tvars == <<vars, l, sk, pend>>
Cur == Trace[l]
Is(e) == l <= Len(Trace) /\ Cur.ev = e
None == [i |-> 0, done |-> FALSE]

TInit == Init /\ l = 1 /\ sk = FALSE /\ pend = [th \in Threads |-> None]
Step == l' = l + 1 /\ sk' = FALSE

Clear == /\ where' = Where0 /\ reserved' = [u \in Names |-> 0] /\ resv' = <<>> /\ used' = {}
         /\ last' = [op |-> "init"] /\ pend' = [th \in Threads |-> None]
TReset == Is("reset") /\ Clear /\ Step
TSkip  == l <= Len(Trace) /\ Cur.ev # "reset" /\ Clear /\ l' = Cur.nr /\ sk' = TRUE

(* the call logged in line e, with the result it returned, is a step the property allows *)
Do(e) ==
  /\ \/ /\ e.op = "reserve"
        /\ Reserve(e.acct, e.asset, e.vote, e.amt, e.unc, e.exp, e.err, e.rid, e.utxos, e.change)
        /\ e.err = "" => (Len(e.amts) = Len(e.utxos) /\ \A i \in 1..Len(e.utxos) : e.amts[i] = U[e.utxos[i]].amt)
     \/ e.op = "particular" /\ Particular(e.u, e.unc, e.exp, e.err, e.rid, e.utxos, e.change)
     \/ e.op = "cancel" /\ Cancel(e.rid)
     \/ e.op = "expire" /\ Expire(e.t)
     \/ e.op \in {"addunc", "rmunc", "confirm"} /\ Move(e.u, e.op)
  /\ (e.op \notin {"addunc", "rmunc", "confirm"} => UNCHANGED where)
  /\ UNCHANGED last

(* the logged tables equal the specification's *)
SnapOk(e) == /\ {e.snap[i] : i \in 1..Len(e.snap)} = Pairs'
             /\ {<<e.rs[i][1], Range(e.rs[i][2])>> : i \in 1..Len(e.rs)} = {<<r, resv'[r].utxos>> : r \in DOMAIN resv'}

TCall  == Is("call") /\ Do(Cur) /\ SnapOk(Cur) /\ UNCHANGED pend /\ Step
TBegin == /\ Is("begin") /\ pend[Cur.th] = None
          /\ pend' = [pend EXCEPT ![Cur.th] = [i |-> l, done |-> FALSE]]
          /\ UNCHANGED vars /\ Step
TLin(th) == /\ pend[th].i # 0 /\ ~pend[th].done
            /\ Do(Trace[pend[th].i])
            /\ pend' = [pend EXCEPT ![th].done = TRUE]
            /\ UNCHANGED <<l, sk>>
TEnd   == /\ Is("end") /\ pend[Cur.th].done
          /\ pend' = [pend EXCEPT ![Cur.th] = None]
          /\ UNCHANGED vars /\ Step
TSnap  == /\ Is("snap") /\ \A th \in Threads : pend[th] = None
          /\ UNCHANGED vars /\ SnapOk(Cur) /\ UNCHANGED pend /\ Step

TNext == TReset \/ TSkip \/ TCall \/ TBegin \/ TEnd \/ TSnap \/ \E th \in Threads : TLin(th)
TSpec == TInit /\ [][TNext]_tvars
TView == <<where, reserved, resv, used, l, sk, pend>>

NTr == Trace[Len(Trace)].tr
ASSUME TLCSet(2, [i \in 1..NTr |-> 0])
HW == (~sk /\ l > 1) =>
        LET t == Trace[l - 1].tr IN
        IF TLCGet(2)[t] < l - 1 THEN TLCSet(2, [TLCGet(2) EXCEPT ![t] = l - 1]) ELSE TRUE
Report == PrintT("NOTE hwmap " \o ToJson(TLCGet(2)))
=============================================================================
