------------------------------ MODULE WalletGen ------------------------------
(* Export of every explored transition of WalletLedger: the call path and, after its last *)
(* call, the wallet the specification expects (the scan of the main chain), the set of    *)
(* outputs consensus lets a block at the next height spend, and the ledger status of every *)
(* coin. `nudge` is the same observation after one more empty block on the best block: a   *)
(* wallet that follows the chain by height only hears of a reorganisation to a branch of   *)
(* the same height when the next block arrives.                                            *)
EXTENDS WalletLedger, Json
VARIABLE hist
ObsOf(L, H, rn) ==
  [wallet |-> {IF u.coin = "RN" THEN [u EXCEPT !.amt = rn] ELSE u : u \in WalletScanL(L)},
   spendable |-> {c \in Coins : Spendable(L, c, H + 1)},
   ledger |-> [c \in Coins |-> L[c].st],
   height |-> H]
Obs == LET L == LedgerOf(best) IN
       [stored |-> stored, orphans |-> orphans, best |-> best,
        invalid |-> {b \in stored : ~ValidInCtx(b)},
        listable |-> Listable,
        now |-> ObsOf(L, Abs(best), 0),
        nudge |-> ObsOf(ApplyReward(L, "RN", Abs(best) + 1), Abs(best) + 1, RewardAmt(best))]
IsCall(op) == op = "deliver"
GInit == Init /\ hist = <<>>
GNext == /\ Next
         /\ hist' = IF last'.op = "endmint" THEN hist ELSE Append(hist, last')
Export == IsCall(last.op) => PrintT("EXPORT " \o ToJson([calls |-> hist, obs |-> Obs]))
GView == View
=============================================================================
