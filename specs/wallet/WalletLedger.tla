---------------------------- MODULE WalletLedger ----------------------------
(* The wallet's view of the ledger under forks and reorganisations (wallet/utxo.go,   *)
(* wallet/wallet.go, account/utxo_keeper.go) on top of the node model of Ledger.tla    *)
(* (same block trees, same fork choice, same delivery semantics).                      *)
(*                                                                                     *)
(* Every scenario starts after the fixed funding prefix of H0 = 14 blocks (E = 2, one  *)
(* external validator). All prefix blocks and all scenario blocks pay their proposer   *)
(* reward to the coinbase program "A.cb" of wallet account A, so the epoch rewards at  *)
(* heights 3, 5, ..., 13 are the wallet-owned coinbase coins P3 .. P13 and every        *)
(* scenario block at an odd height creates a wallet-owned coinbase coin R<id>.         *)
(* The menu transactions are signed spends by the wallet accounts A and B: normal       *)
(* outputs to A and B, a vote by A, its veto, a conflicting spend on another fork, an  *)
(* immature coinbase spend, outputs to programs nobody in the wallet owns (a foreign   *)
(* P2WPKH program and a non-segwit program), two outputs to one program, a vote and    *)
(* veto by account B straight from a prefix coin.                                      *)
(*                                                                                     *)
(* The property (C24): the wallet's unspent outputs are WalletScan(LedgerOf(best)),    *)
(* a function of the main chain alone. C25: every wallet output that is Usable at the  *)
(* best height is Spendable by consensus at the next height.                           *)
(* `wal` is the incremental wallet the block walker maintains (detach the abandoned    *)
(* branch tip-down, attach the new branch); DetachSkipsVotes / RestoreVH0 switch on    *)
(* the two deviations suspected in the code, for design exploration only.              *)
EXTENDS Integers, Sequences, FiniteSets, TLC

CONSTANTS MaxBlocks, MaxHeight, MaxCalls, MaxPlace,
          VoteLock, LockStepAt, VoteLockAfter,   \* vote lock in force for spending heights below / from LockStepAt
          MenuOn,             \* the menu transactions the environment uses in this configuration
          DetachSkipsVotes,   \* design exploration: detach leaves vote outputs of the detached block in the wallet
          RestoreVH0          \* design exploration: detach restores spent inputs with valid height 0

H0 == 14
CbMaturity == 10
R0x2 == 570776254         \* two block subsidies: the reward paid at every odd height of the prefix
Fee == 10000000

(* consensus takes the vote lock from the height of the *spending* block (protocol/state/utxo_view.go) *)
Lock(H) == IF H < LockStepAt THEN VoteLock ELSE VoteLockAfter
MaxLock == IF VoteLock > VoteLockAfter THEN VoteLock ELSE VoteLockAfter

(* control programs: label -> owning wallet account ("" = nobody in the wallet) *)
Owner(p) == IF p \in {"A.cb", "A.1", "A.2"} THEN "A" ELSE IF p = "B.1" THEN "B" ELSE ""

PrefixCoins == {"P3", "P5", "P7", "P9", "P11", "P13"}
PrefixHeight == [c \in PrefixCoins |-> CASE c = "P3" -> 3 [] c = "P5" -> 5 [] c = "P7" -> 7
                                         [] c = "P9" -> 9 [] c = "P11" -> 11 [] c = "P13" -> 13]
RName == <<"R1", "R2", "R3", "R4", "R5", "R6">>     \* reward coin of scenario block i (exists when its height is odd)
RewardCoins == {RName[i] : i \in 1..MaxBlocks} \cup {"RN"}  \* RN: reward of the extra empty block (see Nudge)

Out(c, p, k, a, v) == [coin |-> c, prog |-> p, kind |-> k, amt |-> a, vote |-> v]
(* the transaction menu: one input, the outputs in order; the input is a veto when it spends a vote output *)
TX == << [in |-> "P3", fee |-> Fee,     outs |-> <<Out("N1", "A.1", "normal", R0x2 - Fee, "")>>],
         [in |-> "P3", fee |-> Fee + 1, outs |-> <<Out("N2", "B.1", "normal", R0x2 - Fee - 1, "")>>],   \* conflicts with 1
         [in |-> "N1", fee |-> Fee,     outs |-> <<Out("V3", "A.2", "vote", R0x2 - 2 * Fee, "K")>>],
         [in |-> "V3", fee |-> Fee,     outs |-> <<Out("N4", "A.1", "normal", R0x2 - 3 * Fee, "")>>],     \* locked for VoteLock blocks
         [in |-> "P5", fee |-> Fee,     outs |-> <<Out("X5", "X.pkh", "normal", 200000000, ""),
                                                  Out("C5", "X.true", "normal", 100000000, ""),
                                                  Out("N5", "A.2", "normal", R0x2 - 300000000 - Fee, "")>>],
         [in |-> "P7", fee |-> Fee,     outs |-> <<Out("N6", "B.1", "normal", R0x2 - Fee, "")>>],         \* P7 is immature until height 17
         [in |-> "N2", fee |-> Fee,     outs |-> <<Out("N7", "A.1", "normal", 250000000, ""),
                                                  Out("M7", "A.1", "normal", R0x2 - 2 * Fee - 1 - 250000000, "")>>],
         [in |-> "P5", fee |-> Fee,     outs |-> <<Out("V8", "B.1", "vote", R0x2 - Fee, "K")>>],           \* B votes; conflicts with 5
         [in |-> "V8", fee |-> Fee,     outs |-> <<Out("N9", "B.1", "normal", R0x2 - 2 * Fee, "")>>] >>   \* B's veto
TxIds == 1..Len(TX)
OutsOf(t) == {TX[t].outs[i] : i \in 1..Len(TX[t].outs)}
MenuOuts == UNION {OutsOf(t) : t \in TxIds}
MenuCoins == {o.coin : o \in MenuOuts}
VoteTxs == {t \in TxIds : \E o \in OutsOf(t) : o.kind = "vote"}
OutRec(c) == CHOOSE o \in MenuOuts : o.coin = c
Coins == PrefixCoins \cup MenuCoins \cup RewardCoins

(* static description of every coin, computed once *)
CoinTab == [c \in Coins |->
   IF c \in PrefixCoins \cup RewardCoins THEN [kind |-> "coinbase", prog |-> "A.cb", vote |-> "", owner |-> "A", amt |-> IF c \in PrefixCoins THEN R0x2 ELSE 0]
   ELSE LET o == OutRec(c) IN [kind |-> o.kind, prog |-> o.prog, vote |-> o.vote, owner |-> Owner(o.prog), amt |-> o.amt]]
KindOf(c) == CoinTab[c].kind
ProgOf(c) == CoinTab[c].prog
VoteOf(c) == CoinTab[c].vote
OwnerOf(c) == CoinTab[c].owner
OutCoins == [t \in TxIds |-> {o.coin : o \in OutsOf(t)}]
OwnedOuts == [t \in TxIds |-> {o.coin : o \in {x \in OutsOf(t) : Owner(x.prog) # ""}}]

VARIABLES blk,      \* Seq([p, h, txs]): p = parent id (0 = prefix tip), h = height above the prefix
          byh,      \* per height: ids in ascending hash order
          phase, nplace,
          stored, orphans, best, mainIdx,
          ncalls, last,
          wal       \* the incremental wallet: set of [coin, vh]

vars == <<blk, byh, phase, nplace, stored, orphans, best, mainIdx, ncalls, last, wal>>

Ids == 1..Len(blk)
Parent(b) == IF b = 0 THEN 0 ELSE blk[b].p
Height(b) == IF b = 0 THEN 0 ELSE blk[b].h
Abs(b) == H0 + Height(b)
TxsOf(b) == IF b = 0 THEN <<>> ELSE blk[b].txs
RECURSIVE Anc(_, _)
Anc(b, h) == IF Height(b) <= h THEN b ELSE Anc(Parent(b), h)
IsAncestor(a, b) == Height(a) <= Height(b) /\ Anc(b, Height(a)) = a
PosIn(q, x) == CHOOSE i \in 1..Len(q) : q[i] = x
HashLess(a, b) == PosIn(byh[Height(a)], a) < PosIn(byh[Height(b)], b)
InsertAt(q, i, x) == SubSeq(q, 1, i) \o <<x>> \o SubSeq(q, i + 1, Len(q))
RECURSIVE MainTxs(_)
MainTxs(b) == IF b = 0 THEN {} ELSE {TxsOf(b)[i] : i \in 1..Len(TxsOf(b))} \cup MainTxs(Parent(b))
RECURSIVE SumFees(_)
SumFees(txs) == IF txs = <<>> THEN 0 ELSE TX[Head(txs)].fee + SumFees(Tail(txs))

-----------------------------------------------------------------------------
(* The consensus ledger as a function of a chain (as in Ledger.tla) *)
Led0 == [c \in Coins |-> IF c \in PrefixCoins THEN [st |-> "unspent", h |-> PrefixHeight[c]]
                                              ELSE [st |-> "none", h |-> 0]]
Spendable(L, c, H) ==
  /\ L[c].st = "unspent"
  /\ KindOf(c) = "coinbase" => L[c].h + CbMaturity <= H
  /\ KindOf(c) = "vote" => L[c].h + Lock(H) <= H

ApplyOuts(L, t, H) == [c \in Coins |-> IF c \in OutCoins[t] THEN [st |-> "unspent", h |-> H] ELSE L[c]]
RECURSIVE ApplyTxs(_, _, _)
ApplyTxs(R, txs, H) ==      \* R = [ok, L]
  IF txs = <<>> \/ ~R.ok THEN R
  ELSE LET t == Head(txs) IN
       IF ~Spendable(R.L, TX[t].in, H) THEN [R EXCEPT !.ok = FALSE]
       ELSE ApplyTxs([ok |-> TRUE, L |-> ApplyOuts([R.L EXCEPT ![TX[t].in].st = "spent"], t, H)], Tail(txs), H)

(* the coinbase of a block at an odd height pays the rewards of the two preceding blocks to "A.cb" *)
ApplyReward(L, rc, H) == IF H % 2 = 1 THEN [L EXCEPT ![rc] = [st |-> "unspent", h |-> H]] ELSE L

RECURSIVE StateAt(_)
StateAt(b) == IF b = 0 THEN [ok |-> TRUE, L |-> Led0]
              ELSE LET P == StateAt(Parent(b)) IN
                   ApplyTxs([ok |-> P.ok, L |-> ApplyReward(P.L, RName[b], Abs(b))], TxsOf(b), Abs(b))
ValidInCtx(b) == StateAt(b).ok
LedgerOf(b) == StateAt(b).L

(* amount of the reward coinbase of a block on parent p (odd height): exact while no vote is tallied on the  *)
(* branch (subsidy = R0 per block) plus the fees of the two preceding blocks; 0 = "as computed by the block  *)
(* factory" (the subsidy then depends on the vote tally in floating point: that is C14's subject)            *)
RewardAmt(p) == IF Height(p) = 0 THEN R0x2
                ELSE IF MainTxs(p) \cap VoteTxs # {} THEN 0
                ELSE R0x2 + SumFees(TxsOf(p)) + SumFees(TxsOf(Parent(p)))
AmtOf(c) == IF c \in PrefixCoins \cup MenuCoins \cup {"RN"} THEN CoinTab[c].amt
            ELSE LET b == CHOOSE i \in 1..MaxBlocks : RName[i] = c IN IF b \in Ids THEN RewardAmt(Parent(b)) ELSE 0

-----------------------------------------------------------------------------
(* The wallet as a function of the ledger of the main chain *)
(* the first height from which on a block may spend the output (h + VoteLock while the lock is one constant) *)
Horizon == H0 + MaxHeight + MaxLock + 3
VoteFree(h, v) == \A H \in v..Horizon : h + Lock(H) <= H
VoteVH(h) == CHOOSE v \in h..(h + MaxLock) : VoteFree(h, v) /\ \A u \in h..(v - 1) : ~VoteFree(h, u)
ValidHeight(c, h) == IF KindOf(c) = "coinbase" THEN h + CbMaturity
                     ELSE IF KindOf(c) = "vote" THEN VoteVH(h) ELSE 0
WalletScanL(L) ==
  {[coin |-> c, acct |-> OwnerOf(c), prog |-> ProgOf(c), kind |-> KindOf(c), asset |-> "BTM", amt |-> AmtOf(c),
    vote |-> VoteOf(c), vh |-> ValidHeight(c, L[c].h)] : c \in {x \in Coins : L[x].st = "unspent" /\ OwnerOf(x) # ""}}
WalletScan(b) == WalletScanL(LedgerOf(b))
Usable(u, h) == u.vh <= h

(* the block walker: detach tip-down to the fork point, attach up to the new best *)
Without(W, c) == {w \in W : w.coin # c}
DetachTx(W, t, L) ==
  LET W1 == {w \in W : ~(w.coin \in OutCoins[t] /\ ~(DetachSkipsVotes /\ KindOf(w.coin) = "vote"))}
      in == TX[t].in IN
  IF OwnerOf(in) = "" THEN W1
  ELSE Without(W1, in) \cup {[coin |-> in, vh |-> IF RestoreVH0 THEN 0 ELSE ValidHeight(in, L[in].h)]}
RECURSIVE DetachTxs(_, _, _)
DetachTxs(W, txs, L) == IF txs = <<>> THEN W
                        ELSE DetachTxs(DetachTx(W, txs[Len(txs)], L), SubSeq(txs, 1, Len(txs) - 1), L)
DetachBlock(W, b) == Without(DetachTxs(W, TxsOf(b), LedgerOf(b)), RName[b])
AttachTx(W, t, H) ==
  (Without(W, TX[t].in) \ {w \in W : w.coin \in OutCoins[t]})
    \cup {[coin |-> c, vh |-> ValidHeight(c, H)] : c \in OwnedOuts[t]}
RECURSIVE AttachTxs(_, _, _)
AttachTxs(W, txs, H) == IF txs = <<>> THEN W ELSE AttachTxs(AttachTx(W, Head(txs), H), Tail(txs), H)
AttachBlock(W, b) ==
  AttachTxs(IF Abs(b) % 2 = 1 THEN Without(W, RName[b]) \cup {[coin |-> RName[b], vh |-> Abs(b) + CbMaturity]} ELSE W,
            TxsOf(b), Abs(b))
RECURSIVE Meet(_, _)
Meet(a, b) == IF a = b THEN a
              ELSE IF Height(a) > Height(b) THEN Meet(Parent(a), b)
              ELSE IF Height(b) > Height(a) THEN Meet(a, Parent(b))
              ELSE Meet(Parent(a), Parent(b))
RECURSIVE DetachPath(_, _, _)
DetachPath(W, b, f) == IF b = f THEN W ELSE DetachPath(DetachBlock(W, b), Parent(b), f)
RECURSIVE AttachPath(_, _, _)
AttachPath(W, f, b) == IF b = f THEN W ELSE AttachBlock(AttachPath(W, f, Parent(b)), b)
Walk(W, old, new) == IF old = new THEN W ELSE LET f == Meet(old, new) IN AttachPath(DetachPath(W, old, f), f, new)

-----------------------------------------------------------------------------
Better(a, b) == Height(a) > Height(b) \/ (Height(a) = Height(b) /\ HashLess(b, a))
RawBest(S) == CHOOSE a \in S : \A b \in S \ {a} : Better(a, b)
MainIdxFor(b, old) == [h \in 0..MaxHeight |-> IF h <= Height(b) THEN Anc(b, h) ELSE old[h]]

Init == /\ blk = <<>> /\ byh = [h \in 1..MaxHeight |-> <<>>] /\ phase = "mint" /\ nplace = 0
        /\ stored = {0} /\ orphans = {} /\ best = 0
        /\ mainIdx = [h \in 0..MaxHeight |-> IF h = 0 THEN 0 ELSE -1]
        /\ ncalls = 0 /\ last = [op |-> "init"]
        /\ wal = {[coin |-> c, vh |-> PrefixHeight[c] + CbMaturity] : c \in PrefixCoins}

Mint(p, pos) ==
  /\ phase = "mint" /\ Len(blk) < MaxBlocks /\ Height(p) < MaxHeight
  /\ (Len(blk) > 0) => p >= blk[Len(blk)].p
  /\ LET h == Height(p) + 1  id == Len(blk) + 1 IN
     /\ pos \in 0..Len(byh[h])
     /\ blk' = Append(blk, [p |-> p, h |-> h, txs |-> <<>>])
     /\ byh' = [byh EXCEPT ![h] = InsertAt(@, pos, id)]
     /\ last' = [op |-> "mint", id |-> id, p |-> p, pos |-> pos]
  /\ UNCHANGED <<phase, nplace, stored, orphans, best, mainIdx, ncalls, wal>>

(* the proposer of block b includes menu transaction t (blocks are built before anything is delivered) *)
Place(b, t) ==
  /\ phase = "place" /\ nplace < MaxPlace /\ b \in Ids /\ t \in TxIds \cap MenuOn /\ Len(blk[b].txs) < 2
  /\ \A i \in 1..Len(blk[b].txs) : blk[b].txs[i] # t
  /\ \A c \in Ids : (c > b) => blk[c].txs = <<>>                 \* canonical: fill blocks in id order
  /\ \/ TX[t].in \in PrefixCoins                                  \* the proposer has seen the coin being created
     \/ \E a \in Ids : IsAncestor(a, b) /\ \E i \in 1..Len(blk[a].txs) : TX[t].in \in OutCoins[blk[a].txs[i]]
  /\ blk' = [blk EXCEPT ![b].txs = Append(@, t)]
  /\ nplace' = nplace + 1
  /\ last' = [op |-> "place", b |-> b, tx |-> t]
  /\ UNCHANGED <<byh, phase, stored, orphans, best, mainIdx, ncalls, wal>>

EndMint == /\ phase = "mint" /\ Len(blk) >= 1 /\ phase' = "place" /\ last' = [op |-> "endmint"]
           /\ UNCHANGED <<blk, byh, nplace, stored, orphans, best, mainIdx, ncalls, wal>>
EndPlace == /\ phase = "place" /\ phase' = "run" /\ last' = [op |-> "endmint"]
            /\ UNCHANGED <<blk, byh, nplace, stored, orphans, best, mainIdx, ncalls, wal>>

RECURSIVE Connect(_, _)
Connect(D, O) == LET Nw == {o \in O : Parent(o) \in D} IN
                 IF Nw = {} THEN D ELSE Connect(D \cup Nw, O \ Nw)

(* Chain.ProcessBlock(b), then the wallet's block walker follows the new main chain. Blocks the node already *)
(* holds are not delivered again (a no-op for the chain and invisible to the wallet; Ledger.tla covers it).   *)
Deliver(b) ==
  /\ phase = "run" /\ ncalls < MaxCalls /\ b \in Ids /\ b \notin stored /\ b \notin orphans
  /\ ncalls' = ncalls + 1
  /\ IF Parent(b) \notin stored
       THEN /\ orphans' = orphans \cup {b}
            /\ last' = [op |-> "deliver", b |-> b, orphan |-> TRUE, err |-> FALSE]
            /\ UNCHANGED <<stored, best, mainIdx, wal>>
       ELSE LET D == Connect({b}, orphans)
                S == stored \cup D
                rb == RawBest(S) IN
            /\ stored' = S
            /\ orphans' = orphans \ D
            /\ IF rb = best \/ ValidInCtx(rb)
                 THEN /\ best' = rb /\ mainIdx' = IF rb = best THEN mainIdx ELSE MainIdxFor(rb, mainIdx)
                      /\ wal' = Walk(wal, best, rb)
                      /\ last' = [op |-> "deliver", b |-> b, orphan |-> FALSE, err |-> FALSE]
                 ELSE /\ UNCHANGED <<best, mainIdx, wal>>       \* the candidate branch does not apply: nothing changes
                      /\ last' = [op |-> "deliver", b |-> b, orphan |-> FALSE, err |-> TRUE]
  /\ UNCHANGED <<blk, byh, phase, nplace>>

Next == \/ \E p \in {0} \cup Ids, pos \in 0..MaxBlocks : Mint(p, pos)
        \/ EndMint \/ EndPlace
        \/ \E b \in Ids, t \in TxIds : Place(b, t)
        \/ \E b \in Ids : Deliver(b)

Spec == Init /\ [][Next]_vars

-----------------------------------------------------------------------------
MainChainValid == ValidInCtx(best)
IndexIsAncestry == \A h \in 0..Height(best) : mainIdx[h] = Anc(best, h)
(* C24 on the design: the walker's wallet is the scan of the main chain *)
WalletIsScan == wal = {[coin |-> u.coin, vh |-> u.vh] : u \in WalletScan(best)}
WalletIsScanNoVH == {w.coin : w \in wal} = {u.coin : u \in WalletScan(best)}
(* C25 on the design *)
UsableIsSpendable == LET L == LedgerOf(best) IN
  \A u \in WalletScanL(L) : Usable(u, Abs(best)) => Spendable(L, u.coin, Abs(best) + 1)
WalUsableIsSpendable == LET L == LedgerOf(best) IN
  \A w \in wal : (w.vh <= Abs(best)) => Spendable(L, w.coin, Abs(best) + 1)

(* C25 with the unconfirmed view (account/utxo_keeper.go findUtxos / findUtxo with useUnconfirmed). The wallet is told   *)
(* about pool transactions and, later, that they left the pool; the second message may lag behind the block that mined   *)
(* the transaction (or the transaction went back to the pool in a reorganisation and was mined again). So any set of      *)
(* transactions the node has seen in stored blocks may still be listed as unconfirmed. The listing carries valid heights  *)
(* computed without a block height; it must never make a *confirmed* wallet output look usable before consensus lets it   *)
(* be spent: the confirmed record decides. Outputs known only from the listing are outside the property.                  *)
Listable == UNION {{TxsOf(b)[i] : i \in 1..Len(TxsOf(b))} : b \in stored}
UncCoins(unc) == UNION {OwnedOuts[t] : t \in unc}
Offered(unc) == LET S == WalletScan(best) IN
  {u.coin : u \in {x \in S : Usable(x, Abs(best))}} \cup (UncCoins(unc) \ {u.coin : u \in S})
UnconfirmedViewIsSafe == LET L == LedgerOf(best) S == {u.coin : u \in WalletScanL(L)} IN
  \A unc \in SUBSET Listable : \A c \in Offered(unc) \cap S : Spendable(L, c, Abs(best) + 1)

View == <<blk, byh, phase, nplace, stored, orphans, best, mainIdx, ncalls, wal>>
=============================================================================
