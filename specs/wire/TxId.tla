-------------------------------- MODULE TxId --------------------------------
(* C03 - transaction and block identity commit to all consensus content.     *)
(*                                                                           *)
(* Hashes are modelled as TERMS (nested tuples): under collision freeness two *)
(* identifiers are equal iff the terms are equal.  The terms below say what   *)
(* the PROPERTY requires to be committed - every consensus field of every     *)
(* input and output, their order, version and time range - not what the code  *)
(* happens to hash.                                                           *)
(*                                                                           *)
(* Abstract transaction  [ver, tr, ins, outs]  with                           *)
(*   input  [k, src, a, v, pos, vmv, prog, state, vote, nonce, def, arb, args, wsuf] *)
(*          k \in {"spend","veto","issue","coinbase"}; unused fields are 0     *)
(*   output [k, a, v, vmv, prog, state, vote]   k \in {"orig","vote","retire"} *)
(* All field values are small integers / strings standing for byte strings.   *)
EXTENDS Integers, Sequences, FiniteSets

Idx(s) == 1..Len(s)

(* ---------------------------------------------------------------- terms *)
AssetOf(x) == IF x.k = "issue" THEN <<"assetid", x.prog, x.vmv, x.def>>      \* asset id = H(issuance program, vm version, definition)
              ELSE IF x.k = "coinbase" THEN "BTM" ELSE x.a
Prevout(x) == IF x.k = "veto"
              THEN <<"voteoutput", x.src, x.a, x.v, x.pos, x.vmv, x.prog, x.state, x.vote>>
              ELSE <<"output", x.src, x.a, x.v, x.pos, x.vmv, x.prog, x.state>>
InTerm(x) == CASE x.k = "spend"    -> <<"spend", Prevout(x)>>
               [] x.k = "veto"     -> <<"veto", Prevout(x)>>
               [] x.k = "issue"    -> <<"issuance", x.nonce, AssetOf(x), x.v>>
               [] x.k = "coinbase" -> <<"coinbase", x.arb>>

RECURSIVE SumV(_, _)
SumV(outs, j) == IF j > Len(outs) THEN 0 ELSE outs[j].v + SumV(outs, j + 1)
(* value carried into the mux by input i (a coinbase input is worth the sum of the outputs) *)
InValue(tx, i) == IF tx.ins[i].k = "coinbase" THEN SumV(tx.outs, 1) ELSE tx.ins[i].v
MuxTerm(tx) == <<"mux", [i \in Idx(tx.ins) |-> <<InTerm(tx.ins[i]), AssetOf(tx.ins[i]), InValue(tx, i)>>]>>
OutTerm(tx, j) == LET o == tx.outs[j] IN
                  IF o.k = "vote" THEN <<"vote", MuxTerm(tx), j, o.a, o.v, o.vmv, o.prog, o.state, o.vote>>
                  ELSE <<o.k, MuxTerm(tx), j, o.a, o.v, o.vmv, o.prog, o.state>>
TxIdTerm(tx) == <<"txheader", tx.ver, tx.tr, [j \in Idx(tx.outs) |-> OutTerm(tx, j)]>>
SigHashTerm(tx, i) == <<"sighash", InTerm(tx.ins[i]), TxIdTerm(tx)>>

(* ------------------------------------------------------------ mutations *)
(* [f |-> field, i |-> index] ; fields of class "witness" must not reach the id *)
WitnessFields == {"args", "wsuf"}
InFields(k) == CASE k = "spend"    -> {"src", "a", "v", "pos", "vmv", "prog", "state", "args", "wsuf"}
                 [] k = "veto"     -> {"src", "a", "v", "pos", "vmv", "prog", "state", "vote", "args", "wsuf"}
                 [] k = "issue"    -> {"nonce", "v", "vmv", "prog", "def", "args", "wsuf"}
                 [] k = "coinbase" -> {"arb"}
OutFields(k) == IF k = "vote" THEN {"a", "v", "vmv", "prog", "state", "vote"} ELSE {"a", "v", "vmv", "prog", "state"}

Other(a) == IF a = "BTM" THEN "A" ELSE IF a = "A" THEN "B" ELSE "BTM"
NewVal(f, old) == IF f = "a" THEN Other(old) ELSE old + 100

Swap(s, i) == [n \in Idx(s) |-> IF n = i THEN s[i + 1] ELSE IF n = i + 1 THEN s[i] ELSE s[n]]
Drop(s, i) == [n \in 1..(Len(s) - 1) |-> IF n < i THEN s[n] ELSE s[n + 1]]

Muts(tx) ==
  {[t |-> "hdr", f |-> f, i |-> 0] : f \in {"ver", "tr"}}
  \cup UNION {{[t |-> "in", f |-> f, i |-> i] : f \in InFields(tx.ins[i].k)} : i \in Idx(tx.ins)}
  \cup UNION {{[t |-> "out", f |-> f, i |-> j] : f \in OutFields(tx.outs[j].k)} : j \in Idx(tx.outs)}
  \cup {[t |-> "swapin", f |-> "order", i |-> i] : i \in 1..(Len(tx.ins) - 1)}
  \cup {[t |-> "swapout", f |-> "order", i |-> j] : j \in 1..(Len(tx.outs) - 1)}
  \cup {[t |-> "dropin", f |-> "order", i |-> i] : i \in {n \in Idx(tx.ins) : Len(tx.ins) > 1}}
  \cup {[t |-> "dropout", f |-> "order", i |-> j] : j \in {n \in Idx(tx.outs) : Len(tx.outs) > 1}}
  \cup {[t |-> "dupout", f |-> "order", i |-> j] : j \in Idx(tx.outs)}
  \cup {[t |-> "outkind", f |-> "kind", i |-> j] : j \in {n \in Idx(tx.outs) : tx.outs[n].k # "retire"}}

Apply(tx, m) ==
  CASE m.t = "hdr"     -> [tx EXCEPT ![m.f] = @ + 100]
    [] m.t = "in"      -> [tx EXCEPT !.ins[m.i][m.f] = NewVal(m.f, @)]
    [] m.t = "out"     -> [tx EXCEPT !.outs[m.i][m.f] = NewVal(m.f, @)]
    [] m.t = "swapin"  -> [tx EXCEPT !.ins = Swap(@, m.i)]
    [] m.t = "swapout" -> [tx EXCEPT !.outs = Swap(@, m.i)]
    [] m.t = "dropin"  -> [tx EXCEPT !.ins = Drop(@, m.i)]
    [] m.t = "dropout" -> [tx EXCEPT !.outs = Drop(@, m.i)]
    [] m.t = "dupout"  -> [tx EXCEPT !.outs = Append(@, @[m.i])]
    [] m.t = "outkind" -> [tx EXCEPT !.outs[m.i].k = IF @ = "orig" THEN "vote" ELSE "orig"]

Class(m) == IF m.f \in WitnessFields THEN "witness" ELSE "committed"
(* does the mutation keep the list of inputs aligned (so that per-input sighashes can be compared)? *)
KeepsInputs(m) == m.t \in {"hdr", "in", "out", "swapout", "dropout", "dupout", "outkind"}

(* what the specification expects of one mutation *)
Expect(tx, m) ==
  LET tx2 == Apply(tx, m) IN
  [id  |-> TxIdTerm(tx2) # TxIdTerm(tx),
   sig |-> IF KeepsInputs(m) THEN [i \in Idx(tx.ins) |-> SigHashTerm(tx2, i) # SigHashTerm(tx, i)] ELSE <<>>]

(* design theorem: the classification into committed / witness fields is what the terms say *)
ClassOK(tx, m) == LET e == Expect(tx, m) IN
                  IF Class(m) = "committed" THEN e.id /\ \A i \in Idx(e.sig) : e.sig[i]
                  ELSE ~e.id /\ \A i \in Idx(e.sig) : ~e.sig[i]

(* ------------------------------------------------------------------ blocks *)
(* header [ver, height, prev, ts, bsig, sup : Seq([h, hash, sigs])], txs : Seq([n, cm, wv])   *)
(* a transaction of a block is a template number n with a committed variation cm and a        *)
(* witness variation wv: by the transaction-level result its id is determined by <<n, cm>>.   *)
TxRef(t) == <<"txid", t.n, t.cm>>
RECURSIVE Pow2Below(_, _)
Pow2Below(n, k) == IF 2 * k < n THEN Pow2Below(n, 2 * k) ELSE k     \* largest power of two < n (n >= 2)
RECURSIVE MerkleTerm(_)
MerkleTerm(ids) == IF Len(ids) = 0 THEN <<"empty">>
                   ELSE IF Len(ids) = 1 THEN <<"leaf", ids[1]>>
                   ELSE LET k == Pow2Below(Len(ids), 1) IN
                        <<"node", MerkleTerm(SubSeq(ids, 1, k)), MerkleTerm(SubSeq(ids, k + 1, Len(ids)))>>
RootTerm(b) == MerkleTerm([n \in Idx(b.txs) |-> TxRef(b.txs[n])])
BlockHashTerm(b) == <<"blockheader", b.ver, b.height, b.prev, b.ts, RootTerm(b)>>

BlockMuts(b) ==
  {[t |-> "bhdr", f |-> f, i |-> 0] : f \in {"ver", "height", "prev", "ts"}}
  \cup {[t |-> "bwit", f |-> "bsig", i |-> 0]}
  \cup {[t |-> "supadd", f |-> "sup", i |-> 0]}
  \cup {[t |-> "sup", f |-> f, i |-> l] : l \in Idx(b.sup), f \in {"h", "hash", "sigs"}}
  \cup {[t |-> "supdrop", f |-> "sup", i |-> l] : l \in Idx(b.sup)}
  \cup {[t |-> "tx", f |-> f, i |-> n] : n \in Idx(b.txs), f \in {"cm", "wv"}}
  \cup {[t |-> "txswap", f |-> "order", i |-> n] : n \in 1..(Len(b.txs) - 1)}
  \cup {[t |-> "txdrop", f |-> "order", i |-> n] : n \in {x \in Idx(b.txs) : Len(b.txs) > 1}}
  \cup {[t |-> "txadd", f |-> "order", i |-> 0]}
BlockApply(b, m) ==
  CASE m.t = "bhdr"    -> [b EXCEPT ![m.f] = @ + 100]
    [] m.t = "bwit"    -> [b EXCEPT !.bsig = @ + 100]
    [] m.t = "supadd"  -> [b EXCEPT !.sup = Append(@, [h |-> 77, hash |-> 77, sigs |-> 77])]
    [] m.t = "sup"     -> [b EXCEPT !.sup[m.i][m.f] = @ + 100]
    [] m.t = "supdrop" -> [b EXCEPT !.sup = Drop(@, m.i)]
    [] m.t = "tx"      -> [b EXCEPT !.txs[m.i][m.f] = @ + 100]
    [] m.t = "txswap"  -> [b EXCEPT !.txs = Swap(@, m.i)]
    [] m.t = "txdrop"  -> [b EXCEPT !.txs = Drop(@, m.i)]
    [] m.t = "txadd"   -> [b EXCEPT !.txs = Append(@, [n |-> 99, cm |-> 0, wv |-> 0])]
BlockClass(m) == IF m.t \in {"bwit", "supadd", "sup", "supdrop"} \/ m.f = "wv" THEN "witness" ELSE "committed"
BlockExpect(b, m) == LET b2 == BlockApply(b, m) IN
                     [root |-> RootTerm(b2) # RootTerm(b), hash |-> BlockHashTerm(b2) # BlockHashTerm(b)]
BlockClassOK(b, m) == LET e == BlockExpect(b, m) IN
                      IF BlockClass(m) = "committed" THEN e.hash /\ (m.t \in {"tx", "txswap", "txdrop", "txadd"} <=> e.root)
                      ELSE ~e.hash /\ ~e.root
=============================================================================
