----------------------------- MODULE TxIdCases -----------------------------
(* E for C03: TLC enumerates base transactions (every combination of input   *)
(* and output kinds up to MaxIn x MaxOut) and base blocks (0..MaxSup          *)
(* supLinks, 1..MaxTx transactions), applies every single mutation and        *)
(* exports [base, mutation, class, expected change of id / sighashes /        *)
(* merkle root / block hash].                                                 *)
EXTENDS TxId, TLC, Json, SequencesExt

CONSTANTS MaxIn, MaxOut, MaxSup, MaxTx
VARIABLE c

InKinds == {"spend", "veto", "issue", "coinbase"}
OutKinds == {"orig", "vote", "retire"}
(* field values are determined by the position so that all entries differ *)
BaseIn(k, i) == [k |-> k, src |-> i, a |-> IF i % 2 = 1 THEN "BTM" ELSE "A", v |-> 10 + i, pos |-> i, vmv |-> 1,
                 prog |-> i, state |-> i - 1, vote |-> i, nonce |-> i, def |-> i, arb |-> i, args |-> i, wsuf |-> 0]
BaseOut(k, j) == [k |-> k, a |-> IF j % 2 = 1 THEN "BTM" ELSE "A", v |-> 20 + j, vmv |-> 1, prog |-> j, state |-> j - 1, vote |-> j]
BaseTxs == {[ver |-> 1, tr |-> 0, ins |-> [i \in 1..Len(ks) |-> BaseIn(ks[i], i)], outs |-> [j \in 1..Len(os) |-> BaseOut(os[j], j)]]
              : ks \in UNION {[1..n -> InKinds] : n \in 1..MaxIn}, os \in UNION {[1..n -> OutKinds] : n \in 1..MaxOut}}
BaseBlocks == {[ver |-> 1, height |-> 7, prev |-> 3, ts |-> 1000, bsig |-> 5,
                sup |-> [l \in 1..ns |-> [h |-> l, hash |-> l, sigs |-> l]],
                txs |-> [n \in 1..nt |-> [n |-> n, cm |-> 0, wv |-> 0]]] : ns \in 0..MaxSup, nt \in 1..MaxTx}

(* One initial state per base value; its successors are the mutations of that base, *)
(* so that the (parallel) workers build and judge the cases and no large set of      *)
(* case records is ever materialised.                                                *)
Seeds == {[kind |-> "tx", base |-> t] : t \in BaseTxs} \cup {[kind |-> "block", base |-> b] : b \in BaseBlocks}
MutsOf(x) == IF x.kind = "tx" THEN Muts(x.base) ELSE BlockMuts(x.base)

Out(x, m) == IF x.kind = "tx"
             THEN [kind |-> "tx", base |-> x.base, after |-> Apply(x.base, m), m |-> m, class |-> Class(m),
                   exp |-> Expect(x.base, m), ok |-> ClassOK(x.base, m)]
             ELSE [kind |-> "block", base |-> x.base, after |-> BlockApply(x.base, m), m |-> m, class |-> BlockClass(m),
                   exp |-> BlockExpect(x.base, m), ok |-> BlockClassOK(x.base, m)]

Init == c \in {[lvl |-> 0, seed |-> x] : x \in Seeds}
Next == /\ c.lvl = 0
        /\ \E m \in MutsOf(c.seed) :
             \E o \in {Out(c.seed, m)} :
               /\ c' = [lvl |-> 1, seed |-> c.seed, m |-> m, ok |-> o.ok]
               /\ PrintT("EXPORT " \o ToJson(o))
DesignOK == c.lvl = 1 => c.ok
=============================================================================
