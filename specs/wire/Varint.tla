------------------------------- MODULE Varint -------------------------------
(* Primitive layer of the Bytom wire format (encoding/blockchain/blockchain.go) *)
(* as total functions between abstract values and byte sequences.             *)
(*                                                                            *)
(*   byte string  : sequence over 0..255 (nil and empty are the same value)   *)
(*   U64          : a natural < 2^64 written as its little-endian base-128    *)
(*                  digits without high zero digits (<<>> is 0). TLC integers *)
(*                  are 32 bit; this is exactly the varint digit string, so   *)
(*                  no arithmetic on 64-bit values is ever needed.            *)
(*   reader state : (s, p, lim) = the whole input, the 1-based index of the   *)
(*                  next byte, the index of the last byte this reader may     *)
(*                  consume (extensible strings narrow `lim`).                *)
(*   result       : Ok(v, p') or Err(class, at) -- every reader is TOTAL.     *)
(*                                                                            *)
(* Encoders are written at token level: a token is [k, nm, b] with kind k in  *)
(* {"len","count","u63","byte","hash","data"}, a grammar name nm and bytes b; *)
(* the encoding is the concatenation of the token bytes. The token structure  *)
(* is what the adversarial input family of C05 is derived from (WireAdv.tla). *)
EXTENDS Integers, Sequences, TLC

Ok(v, p)    == [ok |-> TRUE, v |-> v, p |-> p]
Err(c, at)  == [ok |-> FALSE, err |-> c, at |-> at]

-----------------------------------------------------------------------------
(* U64 as base-128 digits *)
RECURSIVE Norm(_)
Norm(d) == IF d = <<>> THEN d
           ELSE IF d[Len(d)] = 0 THEN Norm(SubSeq(d, 1, Len(d) - 1)) ELSE d

IsU64(d)  == /\ Len(d) <= 10 /\ \A i \in 1..Len(d) : d[i] \in 0..127
             /\ (d # <<>> => d[Len(d)] # 0) /\ (Len(d) = 10 => d[10] = 1)
Fits63(d) == Len(d) <= 9                                   \* <= 2^63-1 (math.MaxInt64)
Fits31(d) == Len(d) <= 4 \/ (Len(d) = 5 /\ d[5] <= 7)      \* <= 2^31-1 (math.MaxInt32)
Dg(d, i)  == IF i <= Len(d) THEN d[i] ELSE 0
ToInt(d)  == Dg(d,1) + 128 * Dg(d,2) + 16384 * Dg(d,3) + 2097152 * Dg(d,4) + 268435456 * Dg(d,5)
RECURSIVE FromInt(_)
FromInt(n) == IF n = 0 THEN <<>> ELSE <<n % 128>> \o FromInt(n \div 128)

U0 == <<>>
U1 == <<1>>

(* binary.PutUvarint *)
RECURSIVE EncUvar(_)
EncUvar(d) == IF Len(d) <= 1 THEN <<Dg(d, 1)>> ELSE <<d[1] + 128>> \o EncUvar(Tail(d))
EncInt(n)  == EncUvar(FromInt(n))

(* binary.ReadUvarint: at most 10 bytes, the 10th may only be 0 or 1 *)
RECURSIVE UvarGo(_,_,_,_,_,_)
UvarGo(s, p, lim, i, acc, at) ==
  IF i = 10 THEN Err("overflow", at)
  ELSE IF p > lim THEN Err("eof", at)
  ELSE LET b == s[p] IN
       IF b < 128
         THEN IF i = 9 /\ b > 1 THEN Err("overflow", at) ELSE Ok(Norm(Append(acc, b)), p + 1)
         ELSE UvarGo(s, p + 1, lim, i + 1, Append(acc, b - 128), at)
RdUvar(s, p, lim, at) == UvarGo(s, p, lim, 0, <<>>, at)

(* ReadVarint63 / ReadVarint31 *)
RdU63(s, p, lim, at) == LET r == RdUvar(s, p, lim, at) IN
  IF ~r.ok THEN r ELSE IF Fits63(r.v) THEN r ELSE Err("range", at)
RdU31(s, p, lim, at) == LET r == RdUvar(s, p, lim, at) IN
  IF ~r.ok THEN r ELSE IF Fits31(r.v) THEN Ok(ToInt(r.v), r.p) ELSE Err("range", at)

RdByte(s, p, lim, at) == IF p > lim THEN Err("eof", at) ELSE Ok(s[p], p + 1)
RdRaw(s, p, lim, n, at) == IF lim - p + 1 < n THEN Err("eof", at) ELSE Ok(SubSeq(s, p, p + n - 1), p + n)
RdHash(s, p, lim, at) == RdRaw(s, p, lim, 32, at)

(* ReadVarstr31: the length is compared with what is left BEFORE anything is allocated *)
RdStr(s, p, lim, at) == LET r == RdU31(s, p, lim, at) IN
  IF ~r.ok THEN r
  ELSE IF r.v > lim - r.p + 1 THEN Err("eof", at)
  ELSE Ok(SubSeq(s, r.p, r.p + r.v - 1), r.p + r.v)

(* ReadVarstrList *)
RECURSIVE StrsGo(_,_,_,_,_,_)
StrsGo(s, p, lim, n, acc, at) ==
  IF n = 0 THEN Ok(acc, p)
  ELSE LET r == RdStr(s, p, lim, at) IN
       IF ~r.ok THEN r ELSE StrsGo(s, r.p, lim, n - 1, Append(acc, r.v), at)
RdStrs(s, p, lim, at) == LET r == RdU31(s, p, lim, at) IN
  IF ~r.ok THEN r ELSE StrsGo(s, r.p, lim, r.v, <<>>, at)

(* ReadExtensibleString: a varstr whose content is parsed by a sub-reader;   *)
(* returns the window [p..lim] of the content and nx, the position after it. *)
RdExt(s, p, lim, at) == LET r == RdU31(s, p, lim, at) IN
  IF ~r.ok THEN r
  ELSE IF r.v > lim - r.p + 1 THEN Err("eof", at)
  ELSE [ok |-> TRUE, p |-> r.p, lim |-> r.p + r.v - 1, nx |-> r.p + r.v]
Rest(s, p, lim) == SubSeq(s, p, lim)          \* unconsumed suffix of a window

(* a fixed run of primitive fields, the grammar given as data: <<kind, name>> *)
RdPrim(k, s, p, lim, at) ==
  CASE k = "u63"  -> RdU63(s, p, lim, at)
    [] k = "vm1"  -> LET r == RdU63(s, p, lim, at) IN      \* VM version, must be 1
                     IF ~r.ok THEN r ELSE IF r.v = U1 THEN r ELSE Err("vmversion", at)
    [] k = "hash" -> RdHash(s, p, lim, at)
    [] k = "str"  -> RdStr(s, p, lim, at)
    [] k = "strs" -> RdStrs(s, p, lim, at)
    [] k = "byte" -> RdByte(s, p, lim, at)
RECURSIVE RdSeq(_,_,_,_,_)
RdSeq(g, s, p, lim, acc) ==
  IF g = <<>> THEN Ok(acc, p)
  ELSE LET r == RdPrim(g[1][1], s, p, lim, g[1][2]) IN
       IF ~r.ok THEN r ELSE RdSeq(Tail(g), s, r.p, lim, Append(acc, r.v))

-----------------------------------------------------------------------------
(* token-level encoders *)
Tok(k, nm, b) == [k |-> k, nm |-> nm, b |-> b]
RECURSIVE Flat(_)
Flat(ts) == IF ts = <<>> THEN <<>> ELSE ts[1].b \o Flat(Tail(ts))
RECURSIVE FlatLen(_)
FlatLen(ts) == IF ts = <<>> THEN 0 ELSE Len(ts[1].b) + FlatLen(Tail(ts))

TU63(nm, d)   == <<Tok("u63", nm, EncUvar(d))>>
TByte(nm, b)  == <<Tok("byte", nm, <<b>>)>>
THash(nm, h)  == <<Tok("hash", nm, h)>>
TStr(nm, b)   == <<Tok("len", nm, EncInt(Len(b))), Tok("data", nm, b)>>
RECURSIVE TStrsGo(_,_)
TStrsGo(nm, l) == IF l = <<>> THEN <<>> ELSE TStr(nm, l[1]) \o TStrsGo(nm, Tail(l))
TStrs(nm, l)  == <<Tok("count", nm, EncInt(Len(l)))>> \o TStrsGo(nm, l)
(* WriteExtensibleString: length prefix, content, then the suffix *)
TExt(nm, inner, suffix) ==
  <<Tok("len", nm, EncInt(FlatLen(inner) + Len(suffix)))>> \o inner \o <<Tok("data", nm, suffix)>>

TPrim(k, nm, v) ==
  CASE k = "u63"  -> TU63(nm, v)
    [] k = "vm1"  -> TU63(nm, v)
    [] k = "hash" -> THash(nm, v)
    [] k = "str"  -> TStr(nm, v)
    [] k = "strs" -> TStrs(nm, v)
    [] k = "byte" -> TByte(nm, v)
RECURSIVE TSeq(_,_)
TSeq(g, vals) == IF g = <<>> THEN <<>> ELSE TPrim(g[1][1], g[1][2], vals[1]) \o TSeq(Tail(g), Tail(vals))

EncStr(b)  == Flat(TStr("", b))
EncStrs(l) == Flat(TStrs("", l))

-----------------------------------------------------------------------------
(* text forms: lower-case hex as a sequence of character codes; JSON = quoted hex *)
HexChar(n) == IF n < 10 THEN 48 + n ELSE 87 + n
(* (written with function constructors and SubSeq, which TLC evaluates in linear time) *)
HexEnc(b) == LET f == [k \in 1..(2 * Len(b)) |-> IF k % 2 = 1 THEN HexChar(b[(k + 1) \div 2] \div 16) ELSE HexChar(b[k \div 2] % 16)]
             IN SubSeq(f, 1, 2 * Len(b))
Nib(c) == IF c \in 48..57 THEN c - 48 ELSE IF c \in 97..102 THEN c - 87 ELSE IF c \in 65..70 THEN c - 55 ELSE -1
(* encoding/hex.Decode: both cases accepted; a non-hex character or an odd length is an error *)
HexDec(t) ==
  IF Len(t) % 2 = 1 \/ \E k \in 1..Len(t) : Nib(t[k]) < 0 THEN Err("hex", "text")
  ELSE LET n == Len(t) \div 2  f == [k \in 1..n |-> 16 * Nib(t[2 * k - 1]) + Nib(t[2 * k])] IN Ok(SubSeq(f, 1, n), Len(t) + 1)
(* the JSON form used by storage / RPC / p2p: a JSON string holding the hex text.  *)
(* Only this shape (and the literal null) is specified; other JSON is "err json".  *)
JsonEnc(t) == <<34>> \o t \o <<34>>
JsonPlain(t) == \A i \in 1..Len(t) : t[i] >= 32 /\ t[i] # 34 /\ t[i] # 92 /\ t[i] < 127
JsonDec(t) ==
  IF t = <<110, 117, 108, 108>> THEN [ok |-> TRUE, null |-> TRUE]
  ELSE IF Len(t) >= 2 /\ t[1] = 34 /\ t[Len(t)] = 34 /\ JsonPlain(SubSeq(t, 2, Len(t) - 1))
         THEN [ok |-> TRUE, null |-> FALSE, v |-> SubSeq(t, 2, Len(t) - 1)]
         ELSE Err("json", "text")

-----------------------------------------------------------------------------
(* sanity theorems checked by TLC on small domains (WireCases.tla)            *)
UvarRoundTrip(d)  == RdUvar(EncUvar(d), 1, Len(EncUvar(d)), "x") = Ok(d, Len(EncUvar(d)) + 1)
StrRoundTrip(b)   == RdStr(EncStr(b), 1, Len(EncStr(b)), "x") = Ok(b, Len(EncStr(b)) + 1)
StrsRoundTrip(l)  == RdStrs(EncStrs(l), 1, Len(EncStrs(l)), "x") = Ok(l, Len(EncStrs(l)) + 1)
HexRoundTrip(b)   == HexDec(HexEnc(b)) = Ok(b, 2 * Len(b) + 1)
=============================================================================
