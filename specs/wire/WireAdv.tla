------------------------------- MODULE WireAdv -------------------------------
(* C05, specification side: the adversarial input family, derived from the     *)
(* grammar, with the specification's verdict class for every member.           *)
(*                                                                             *)
(* For every base (a small valid encoding, given as its token sequence):       *)
(*   trunc     every proper prefix                                             *)
(*   len/count every length or count prefix n replaced by                      *)
(*             0, n-1, n+1, 0x7f, 2^24, 2^31-1, 2^31, 2^63 (and a non-minimal  *)
(*             form of n) in the varint encoding of its layer                   *)
(*   u63       every number replaced by 0,1,2,0x7f,0x80,2^63-1,2^63,2^64-1,    *)
(*             an overflowing and an over-long varint                           *)
(*   byte      every type / flag byte replaced by 0,1,2,3,4,7,0x7f,0x80,0xff   *)
(*   trail     trailing garbage                                                 *)
(*   text      for text-form targets: odd length, a non-hex character, upper   *)
(*             case, empty text                                                 *)
(* and, for payload-carrying messages, every mutant of a transaction / block   *)
(* base wrapped into a valid envelope.  Totality of the decoders is what TLC   *)
(* checks here: evaluating the class of every member must not fail.            *)
EXTENDS WireMsg, Json, FiniteSets

CONSTANT Tier
VARIABLES base, m

Thorough == Tier = "thorough"

RECURSIVE Iota(_)
Iota(n) == IF n = 0 THEN <<>> ELSE Iota(n - 1) \o <<n>>
H1 == Rep(32, 17)
H2 == Iota(32)
Sig64 == Rep(64, 171)
FixAid(i) == [i EXCEPT !.assetId = ModelAid(i.def, i.vmver, i.prog)]
Spend == [av |-> U1, kind |-> "spend", srcId |-> H1, assetId |-> H2, amount |-> <<5>>, srcPos |-> <<0, 1>>, vmver |-> U1,
          prog |-> <<118, 170, 32>>, state |-> <<<<2, 2>>, <<>>>>, scsuffix |-> <<>>, args |-> <<<<1>>, <<9, 9, 9>>>>,
          csuffix |-> <<4>>, wsuffix |-> <<3>>]
Veto  == [av |-> U1, kind |-> "veto", srcId |-> H2, assetId |-> H1, amount |-> <<0, 1>>, srcPos |-> U1, vmver |-> U1,
          prog |-> <<0, 81>>, state |-> <<>>, scsuffix |-> <<>>, vote |-> Rep(8, 7), args |-> <<<<4>>>>, csuffix |-> <<>>, wsuffix |-> <<>>]
Iss   == FixAid([av |-> U1, kind |-> "issuance", nonce |-> <<9, 8>>, assetId |-> ZeroHash, amount |-> <<3>>, def |-> <<123, 125>>,
          vmver |-> U1, prog |-> <<81>>, args |-> <<<<6>>, <<7>>>>, csuffix |-> <<>>, wsuffix |-> <<>>])
Cb    == [av |-> U1, kind |-> "coinbase", arb |-> <<0, 1, 2>>, csuffix |-> <<>>, wsuffix |-> <<>>]
ExtIn == [av |-> <<2>>, kind |-> "ext", csuffix |-> <<1, 2>>, wsuffix |-> <<>>]
Orig  == [av |-> U1, kind |-> "original", assetId |-> H2, amount |-> <<7>>, vmver |-> U1, prog |-> <<81>>, state |-> <<>>, csuffix |-> <<>>]
Vote  == [av |-> U1, kind |-> "vote", vote |-> Rep(8, 8), assetId |-> H1, amount |-> <<0, 0, 1>>, vmver |-> U1,
          prog |-> <<0, 81>>, state |-> <<<<1>>>>, csuffix |-> <<5>>]
ExtOut == [av |-> <<2>>, kind |-> "original", csuffix |-> <<9>>]
Tx(ins, outs) == [version |-> U1, timeRange |-> <<100>>, inputs |-> ins, outputs |-> outs]
TxA == Tx(<<Spend>>, <<Orig, Vote>>)
TxB == Tx(<<Iss>>, <<[Orig EXCEPT !.prog = <<106>>]>>)
TxC == Tx(<<Veto, Cb>>, <<ExtOut>>)
TxD == Tx(<<Cb>>, <<Orig>>)
TxE == Tx(<<>>, <<>>)
TxX == Tx(<<ExtIn>>, <<Orig>>)            \* unknown asset version on an input: decodes, cannot be mapped
TxF == Tx(<<Cb, Spend, Veto, Iss>>, <<Vote, Orig, ExtOut>>)
Link(h, x, P) == [height |-> h, hash |-> x, sigs |-> [k \in 1..NSIG |-> IF k \in P THEN Sig64 ELSE <<>>]]
Hdr(ls) == [version |-> U1, height |-> <<100>>, prev |-> H1, timestamp |-> <<0, 0, 0, 1>>, root |-> H2, witness |-> Sig64, suplinks |-> ls]
HdrA == Hdr(<<>>)
HdrB == Hdr(<<Link(<<1>>, H1, {2})>>)
HdrC == Hdr(<<Link(<<1>>, H1, {}), Link(<<0, 1>>, H2, {1, NSIG})>>)
Blk(h, txs) == [h |-> h, txs |-> txs]

Text(b) == HexEnc(b)
Json(b) == JsonEnc(HexEnc(b))
Msg(t, f) == [t |-> t, f |-> f]
U64BE(n) == PadL(BE(n), 8)

(* ---- bases: [id, target, toks] ; target says which decoder receives the input ---- *)
TxBases == << <<"txA", TxA>>, <<"txB", TxB>>, <<"txC", TxC>>, <<"txE", TxE>>, <<"txX", TxX>> >>
             \o (IF Thorough THEN << <<"txD", TxD>>, <<"txF", TxF>> >> ELSE <<>>)
HdrBases == << <<"hdrA", HdrA>>, <<"hdrB", HdrB>> >> \o (IF Thorough THEN << <<"hdrC", HdrC>> >> ELSE <<>>)
BlkBases == << <<"blkA3", Blk(HdrA, <<>>), 3>>, <<"blkA1", Blk(HdrA, <<>>), 1>>, <<"blkD2", Blk(HdrA, <<TxD>>), 2>>,
               <<"blkBD", Blk(HdrB, <<TxD, TxE>>), 3>>, <<"blkX", Blk(HdrA, <<TxE, TxX, TxD>>), 3>> >>
             \o (IF Thorough THEN << <<"blkCAB", Blk(HdrC, <<TxA, TxB>>), 3>>, <<"blkF", Blk(HdrA, <<TxF>>), 3>> >> ELSE <<>>)
ChainMsgs == << <<"getblock", Msg(16, <<U64BE(7), H1>>)>>,
                <<"block", Msg(17, <<Text(EncBlock(Blk(HdrA, <<TxD>>), 3))>>)>>,
                <<"getheaders", Msg(18, <<<<H1, H2>>, ZeroHash, U64BE(1)>>)>>,
                <<"headers", Msg(19, <<<<Json(EncHeader(HdrA)), Json(EncHeader(HdrB))>>>>)>>,
                <<"getblocks", Msg(20, <<<<H2>>, H1>>)>>,
                <<"blocks", Msg(21, <<<<Json(EncBlock(Blk(HdrA, <<TxD>>), 3))>>>>)>>,
                <<"status", Msg(33, <<U64BE(100), H1, U64BE(90), H2>>)>>,
                <<"tx", Msg(48, <<Text(EncTx(TxD))>>)>>,
                <<"txs", Msg(49, <<<<Text(EncTx(TxD)), Text(EncTx(TxE))>>>>)>>,
                <<"mineblock", Msg(64, <<Text(EncBlock(Blk(HdrA, <<>>), 3))>>)>>,
                <<"filterload", Msg(80, <<<<<<1, 2, 3>>, <<>>>>>>)>>,
                <<"filteradd", Msg(81, <<<<1, 2, 3>>>>)>>,
                <<"filterclear", Msg(82, <<>>)>>,
                <<"getmerkle", Msg(96, <<U64BE(7), H1>>)>>,
                <<"merkle", Msg(97, <<Text(EncHeader(HdrA)), <<H1>>, <<Text(EncTx(TxE))>>, <<1, 0>>>>)>> >>
ConsMsgs == << <<"verification", Msg(16, <<H1, H2, Rep(32, 3), Sig64>>)>>,
               <<"propose", Msg(17, <<Text(EncBlock(Blk(HdrA, <<TxD>>), 3))>>)>> >>

Bases ==
  [k \in 1..Len(TxBases) |-> [id |-> TxBases[k][1], target |-> "tx", toks |-> TTx(TxBases[k][2])]] \o
  [k \in 1..Len(HdrBases) |-> [id |-> HdrBases[k][1], target |-> "header", toks |-> THeader(HdrBases[k][2], 1)]] \o
  [k \in 1..Len(BlkBases) |-> [id |-> BlkBases[k][1], target |-> "block", toks |-> TBlock(BlkBases[k][2], BlkBases[k][3])]] \o
  [k \in 1..Len(ChainMsgs) |-> [id |-> "chain." \o ChainMsgs[k][1], target |-> "chainmsg", toks |-> TMsg("chainmsg", ChainMsgs[k][2])]] \o
  [k \in 1..Len(ConsMsgs) |-> [id |-> "cons." \o ConsMsgs[k][1], target |-> "consmsg", toks |-> TMsg("consmsg", ConsMsgs[k][2])]]
(* payload wrapping: mutants of these bases are also sent inside an envelope *)
Wrapped == << [from |-> "txC", fam |-> "chainmsg", t |-> 48, form |-> "text"],
              [from |-> "blkX", fam |-> "consmsg", t |-> 17, form |-> "text"],
              [from |-> "hdrB", fam |-> "chainmsg", t |-> 19, form |-> "json"] >>
           \o (IF Thorough THEN << [from |-> "blkBD", fam |-> "chainmsg", t |-> 17, form |-> "text"],
                                   [from |-> "txX", fam |-> "chainmsg", t |-> 49, form |-> "text"],
                                   [from |-> "blkBD", fam |-> "chainmsg", t |-> 21, form |-> "json"] >> ELSE <<>>)
NB == Len(Bases)

-----------------------------------------------------------------------------
(* replacement byte strings *)
V2p31m == <<255, 255, 255, 255, 7>>
V2p31  == <<128, 128, 128, 128, 8>>
V2p24  == <<128, 128, 128, 8>>
V2p63m == Rep(8, 255) \o <<127>>
V2p63  == Rep(9, 128) \o <<1>>
V2p64m == Rep(9, 255) \o <<1>>
VOver  == Rep(9, 255) \o <<2>>
VLong  == Rep(10, 128) \o <<1>>
UvarVal(b) == RdUvar(b, 1, Len(b), "x").v                \* digits of a well-formed token
LenRepl(b) ==                                           \* for a length/count token holding n
  LET d == UvarVal(b)  n == ToInt(d) IN
  {<<0>>, EncInt(n + 1), <<127>>, V2p24, V2p31m, V2p31, V2p63, (IF Len(b) = 1 THEN <<b[1] + 128, 0>> ELSE b \o <<0>>)}
    \cup (IF n > 0 THEN {EncInt(n - 1)} ELSE {})
U63Repl == {<<0>>, <<1>>, <<2>>, <<127>>, <<128, 1>>, V2p63m, V2p63, V2p64m, VOver, VLong}
ByteRepl == {<<0>>, <<1>>, <<2>>, <<3>>, <<4>>, <<7>>, <<127>>, <<128>>, <<255>>}
WIntVal(b) == IF b[1] = 0 THEN 0 ELSE Int8(PadL(Tail(b), 8))
WRepl(b) ==                                              \* go-wire varint tokens
  LET n == WIntVal(b) IN
  {WEnc(0), WEnc(n + 1), WEnc(127), WEnc(16777216), WEnc(MsgLimit - 1), WEnc(MsgLimit + 1), WEnc(2147483647),
   <<4, 128, 0, 0, 0>>, <<8, 128, 0, 0, 0, 0, 0, 0, 0>>, <<8, 127, 255, 255, 255, 255, 255, 255, 255>>,
   <<241, 1>>, <<240>>, <<9>>, <<248>> \o Rep(7, 255) \o <<256 - (IF n % 256 = 0 THEN 1 ELSE n % 256)>>,
   <<2, 0>> \o (IF n < 256 THEN <<n>> ELSE <<255>>)}
    \cup (IF n > 0 THEN {WEnc(n - 1)} ELSE {})
Repl(t) == CASE t.k \in {"len", "count"} -> LenRepl(t.b)
             [] t.k = "u63" -> U63Repl
             [] t.k = "byte" -> ByteRepl
             [] t.k \in {"wlen", "wcount"} -> WRepl(t.b)
             [] OTHER -> {}

RECURSIVE FlatBut(_,_,_,_)
FlatBut(ts, k, repl, i) ==          \* Flat(ts) with the bytes of token k replaced
  IF i > Len(ts) THEN <<>> ELSE (IF i = k THEN repl ELSE ts[i].b) \o FlatBut(ts, k, repl, i + 1)

TextTargets == {"tx", "header", "block"}
Upper(t) == SubSeq([k \in 1..Len(t) |-> IF t[k] \in 97..102 THEN t[k] - 32 ELSE t[k]], 1, Len(t))
(* mutants of base number bi: records [mut, b] (bytes) or [mut, t] (text) *)
ByteMutants(bs) ==
  LET ts == bs.toks  full == Flat(ts) IN
  {[mut |-> "valid", b |-> full]}
  \cup {[mut |-> "trunc", b |-> SubSeq(full, 1, n)] : n \in 0..(Len(full) - 1)}
  \cup UNION {{[mut |-> ts[k].k \o ":" \o ts[k].nm, b |-> FlatBut(ts, k, x, 1)] : x \in Repl(ts[k]) \ {ts[k].b}} : k \in 1..Len(ts)}
  \cup {[mut |-> "trail", b |-> full \o x] : x \in {<<0>>, <<255, 1>>}}
TextMutants(bs) ==
  IF bs.target \notin TextTargets THEN {} ELSE
  LET t == HexEnc(Flat(bs.toks)) IN
  {[mut |-> "text:odd", t |-> SubSeq(t, 1, Len(t) - 1)], [mut |-> "text:upper", t |-> Upper(t)], [mut |-> "text:empty", t |-> <<>>],
   [mut |-> "text:nonhex", t |-> [t EXCEPT ![Len(t) \div 2] = 103]], [mut |-> "text:0x", t |-> <<48, 120>> \o t]}

Class(target, x) ==
  IF "t" \in DOMAIN x THEN TextClass(target, x.t)
  ELSE CASE target \in TextTargets -> BytesClass(target, x.b)
         [] OTHER -> MsgClass(target, x.b)

BaseIdx(id) == CHOOSE k \in 1..NB : Bases[k].id = id
WrapOne(w, x) ==                       \* a byte-level mutant of a text-form base inside an envelope
  LET payload == IF w.form = "json" THEN JsonEnc(HexEnc(x.b)) ELSE HexEnc(x.b)
      msg == IF w.t \in {19, 49, 21} THEN Msg(w.t, <<<<payload>>>>) ELSE Msg(w.t, <<payload>>)
  IN [mut |-> "wrap:" \o x.mut, b |-> EncMsg(w.fam, msg)]

(* ---- one initial state per base / wrapping; its single step evaluates and exports every mutant ---- *)
NW == Len(Wrapped)
Init == base \in 1..(NB + NW) /\ m = 0
Out(target, id, x) ==
  [id |-> id, target |-> target, mut |-> x.mut, class |-> Class(target, x),
   b |-> IF "b" \in DOMAIN x THEN x.b ELSE <<>>, t |-> IF "t" \in DOMAIN x THEN x.t ELSE <<>>, istext |-> "t" \in DOMAIN x,
   bound |-> AllocBound(IF "t" \in DOMAIN x THEN Len(x.t) ELSE IF target \in TextTargets THEN 2 * Len(x.b) ELSE Len(x.b))]
Next ==
  /\ m = 0 /\ m' = 1 /\ base' = base
  /\ IF base <= NB
       THEN LET bs == Bases[base]  tg == bs.target  id == bs.id IN     \* (bound once: TLC re-evaluates definitions on every use)
            \A x \in ByteMutants(bs) \cup TextMutants(bs) : PrintT("EXPORT " \o ToJson(Out(tg, id, x)))
       ELSE LET w == Wrapped[base - NB]  bs == Bases[BaseIdx(w.from)]  id == w.from \o ">" \o w.fam IN
            \A x \in ByteMutants(bs) : PrintT("EXPORT " \o ToJson(Out(w.fam, id, WrapOne(w, x))))

(* the valid encodings themselves are accepted (or accepted-but-unmappable for txX) *)
ValidOk == LET bss == Bases IN \A k \in 1..Len(bss) :
   LET c == Class(bss[k].target, [mut |-> "valid", b |-> Flat(bss[k].toks)]) IN
   c \in {"ok", "ok+extin", "ok+extout", "ok/ok", "ok/ok+extin"}
ASSUME ValidOk
ASSUME \A k \in 1..Len(ChainMsgs) : MsgRoundTrip("chainmsg", ChainMsgs[k][2])
ASSUME \A k \in 1..Len(ConsMsgs) : MsgRoundTrip("consmsg", ConsMsgs[k][2])
(* the placeholder asset ids used above, for the driver to replace by the real hash *)
ASSUME PrintT("EXPORT " \o ToJson([id |-> "#subst", b |-> Iss.assetId, def |-> Iss.def, vmver |-> Iss.vmver, prog |-> Iss.prog,
                                   target |-> "", mut |-> "", class |-> "", t |-> <<>>, istext |-> FALSE, bound |-> 0]))
ASSUME PrintT("EXPORT " \o ToJson([id |-> "#bound", k |-> AllocK, c |-> AllocC, target |-> "", mut |-> "", class |-> "",
                                   b |-> <<>>, t |-> <<>>, istext |-> FALSE, bound |-> 0]))
=============================================================================
