------------------------------ MODULE WireBlock ------------------------------
(* Block headers and blocks (protocol/bc/types/{block,block_header,sup_link,  *)
(* block_commitment,block_witness}.go) as abstract values <-> bytes, the text *)
(* entry points (UnmarshalText / JSON) and the verdict classes used by C05.   *)
(*                                                                            *)
(*  Header = [version, height, prev, timestamp, root, witness, suplinks]      *)
(*  SupLink = [height, hash, sigs]   sigs: exactly NSIG byte strings          *)
(*  Block  = [h : Header, txs : Seq(Tx)]                                      *)
(* Serialisation flags: 1 header only, 2 transactions only, 3 both.           *)
EXTENDS WireTx

NSIG == 10                      \* consensus.MaxNumOfValidators
RECURSIVE Rep(_,_)
Rep(n, x) == IF n = 0 THEN <<>> ELSE <<x>> \o Rep(n - 1, x)
ZeroHash == Rep(32, 0)
ZeroHeader == [version |-> U0, height |-> U0, prev |-> ZeroHash, timestamp |-> U0, root |-> ZeroHash,
               witness |-> <<>>, suplinks |-> <<>>]

-----------------------------------------------------------------------------
RECURSIVE RdSigs(_,_,_,_,_)
RdSigs(s, p, lim, n, acc) ==
  IF n = 0 THEN Ok(acc, p)
  ELSE LET r == RdStr(s, p, lim, "suplink.sig") IN
       IF ~r.ok THEN r ELSE RdSigs(s, r.p, lim, n - 1, Append(acc, r.v))
(* SupLink.readFrom *)
DecSupLink(s, p, lim) ==
  LET h == RdU63(s, p, lim, "suplink") IN IF ~h.ok THEN h ELSE
  LET x == RdHash(s, h.p, lim, "suplink.hash") IN IF ~x.ok THEN x ELSE
  LET g == RdSigs(s, x.p, lim, NSIG, <<>>) IN IF ~g.ok THEN g ELSE
  Ok([height |-> h.v, hash |-> x.v, sigs |-> g.v], g.p)
(* SupLinks.readFrom: a count followed by that many links. Nothing in the   *)
(* format lets the count exceed the number of links actually present, so a  *)
(* reader needs memory for at most (bytes left) / 43 links: AllocBound.     *)
RECURSIVE RdLinks(_,_,_,_,_)
RdLinks(s, p, lim, n, acc) ==
  IF n = 0 THEN Ok(acc, p)
  ELSE LET r == DecSupLink(s, p, lim) IN
       IF ~r.ok THEN r ELSE RdLinks(s, r.p, lim, n - 1, Append(acc, r.v))

(* BlockHeader.readFrom: returns the flag as well; suffixes of the three      *)
(* extensible strings are read and dropped.                                   *)
DecHeaderAt(s, p, lim) ==
  LET fl == RdByte(s, p, lim, "bh.flags") IN IF ~fl.ok THEN fl ELSE
  IF fl.v = 2 THEN [ok |-> TRUE, v |-> ZeroHeader, flag |-> 2, p |-> fl.p] ELSE
  IF fl.v \notin {1, 3} THEN Err("badflags", "bh.flags") ELSE
  LET ver == RdU63(s, fl.p, lim, "bh.version") IN IF ~ver.ok THEN ver ELSE
  LET hgt == RdU63(s, ver.p, lim, "bh.height") IN IF ~hgt.ok THEN hgt ELSE
  LET prv == RdHash(s, hgt.p, lim, "bh.prev") IN IF ~prv.ok THEN prv ELSE
  LET ts == RdU63(s, prv.p, lim, "bh.timestamp") IN IF ~ts.ok THEN ts ELSE
  LET c == RdExt(s, ts.p, lim, "bh.clen") IN IF ~c.ok THEN c ELSE
  LET root == RdHash(s, c.p, c.lim, "bh.root") IN IF ~root.ok THEN root ELSE
  LET w == RdExt(s, c.nx, lim, "bh.wlen") IN IF ~w.ok THEN w ELSE
  LET wit == RdStr(s, w.p, w.lim, "bh.witness") IN IF ~wit.ok THEN wit ELSE
  LET l == RdExt(s, w.nx, lim, "bh.slen") IN IF ~l.ok THEN l ELSE
  LET n == RdU31(s, l.p, l.lim, "bh.nsuplinks") IN IF ~n.ok THEN n ELSE
  LET ls == RdLinks(s, n.p, l.lim, n.v, <<>>) IN IF ~ls.ok THEN ls ELSE
  [ok |-> TRUE, flag |-> fl.v, p |-> l.nx,
   v |-> [version |-> ver.v, height |-> hgt.v, prev |-> prv.v, timestamp |-> ts.v, root |-> root.v,
          witness |-> wit.v, suplinks |-> ls.v]]

(* BlockHeader.UnmarshalText after hex: flag 2 is refused, bytes after the   *)
(* header are ignored (a full block is accepted as a header).                *)
DecHeader(s) == LET r == DecHeaderAt(s, 1, Len(s)) IN
  IF ~r.ok THEN r ELSE IF r.flag = 2 THEN Err("badflags", "bh.flags") ELSE r

(* Block.readFrom + UnmarshalText. `extin` remembers that a completely read  *)
(* transaction had an input of unknown asset version: the reader maps every   *)
(* transaction (types.NewTx) as soon as it is read, before going on.          *)
RECURSIVE RdTxs(_,_,_,_,_,_)
RdTxs(s, p, lim, n, acc, extin) ==
  IF n = 0 THEN [ok |-> TRUE, v |-> acc, p |-> p, extin |-> extin]
  ELSE LET r == DecTxAt(s, p, lim) IN
       IF ~r.ok THEN [ok |-> FALSE, err |-> r.err, at |-> r.at, extin |-> extin]
       ELSE RdTxs(s, r.p, lim, n - 1, Append(acc, r.v), extin \/ HasExtIn(r.v))
DecBlock(s) ==
  LET h == DecHeaderAt(s, 1, Len(s)) IN
  IF ~h.ok THEN [ok |-> FALSE, err |-> h.err, at |-> h.at, extin |-> FALSE] ELSE
  IF h.flag = 1 THEN
     IF h.p <= Len(s) THEN [ok |-> FALSE, err |-> "trailing", at |-> "block", extin |-> FALSE]
     ELSE [ok |-> TRUE, v |-> [h |-> h.v, txs |-> <<>>], flag |-> 1, extin |-> FALSE] ELSE
  LET n == RdU31(s, h.p, Len(s), "block.ntxs") IN
  IF ~n.ok THEN [ok |-> FALSE, err |-> n.err, at |-> n.at, extin |-> FALSE] ELSE
  LET t == RdTxs(s, n.p, Len(s), n.v, <<>>, FALSE) IN
  IF ~t.ok THEN t ELSE
  IF t.p <= Len(s) THEN [ok |-> FALSE, err |-> "trailing", at |-> "block", extin |-> t.extin]
  ELSE [ok |-> TRUE, v |-> [h |-> h.v, txs |-> t.v], flag |-> h.flag, extin |-> t.extin]

-----------------------------------------------------------------------------
RECURSIVE TSigs(_)
TSigs(g) == IF g = <<>> THEN <<>> ELSE TStr("suplink.sig", g[1]) \o TSigs(Tail(g))
TSupLink(l) == TU63("suplink", l.height) \o THash("suplink.hash", l.hash) \o TSigs(l.sigs)
RECURSIVE TLinks(_)
TLinks(ls) == IF ls = <<>> THEN <<>> ELSE TSupLink(ls[1]) \o TLinks(Tail(ls))
THeader(h, flag) ==
  TByte("bh.flags", flag) \o
  (IF flag = 2 THEN <<>> ELSE
   TU63("bh.version", h.version) \o TU63("bh.height", h.height) \o THash("bh.prev", h.prev) \o
   TU63("bh.timestamp", h.timestamp) \o
   TExt("bh.clen", THash("bh.root", h.root), <<>>) \o
   TExt("bh.wlen", TStr("bh.witness", h.witness), <<>>) \o
   TExt("bh.slen", <<Tok("count", "bh.nsuplinks", EncInt(Len(h.suplinks)))>> \o TLinks(h.suplinks), <<>>))
RECURSIVE TTxs(_)
TTxs(l) == IF l = <<>> THEN <<>> ELSE TTx(l[1]) \o TTxs(Tail(l))
TBlock(b, flag) ==
  THeader(b.h, flag) \o
  (IF flag = 1 THEN <<>> ELSE <<Tok("count", "block.ntxs", EncInt(Len(b.txs)))>> \o TTxs(b.txs))

EncHeader(h)      == Flat(THeader(h, 1))
EncBlock(b, flag) == Flat(TBlock(b, flag))

WFSupLink(l) == Fits63(l.height) /\ Len(l.hash) = 32 /\ Len(l.sigs) = NSIG
WFHeader(h)  == /\ Fits63(h.version) /\ Fits63(h.height) /\ Fits63(h.timestamp)
                /\ \A k \in 1..Len(h.suplinks) : WFSupLink(h.suplinks[k])
WFBlock(b)   == WFHeader(b.h) /\ \A k \in 1..Len(b.txs) : WFTx(b.txs[k])

(* what a block serialised with `flag` must read back as *)
BlockView(b, flag) == CASE flag = 1 -> [h |-> b.h, txs |-> <<>>]
                        [] flag = 2 -> [h |-> ZeroHeader, txs |-> b.txs]
                        [] flag = 3 -> b

(* C04, specification level *)
HeaderRoundTrip(h) == LET r == DecHeader(EncHeader(h)) IN r.ok /\ r.v = h /\ r.p = Len(EncHeader(h)) + 1
BlockRoundTrip(b, flag) == LET r == DecBlock(EncBlock(b, flag)) IN r.ok /\ r.v = BlockView(b, flag) /\ r.flag = flag

-----------------------------------------------------------------------------
(* Verdict classes (strings) of the text entry points, used to classify the  *)
(* behaviour of the real decoders in C05:                                     *)
(*    "ok" | "ok+extin" | "ok+extout" | "err:<class>@<grammar element>" [+extin] *)
ErrClass(r) == "err:" \o r.err \o "@" \o r.at
TxClass(s) == LET r == DecTx(s) IN
  IF ~r.ok THEN ErrClass(r)
  ELSE IF HasExtIn(r.v) THEN "ok+extin" ELSE IF HasExtOut(r.v) THEN "ok+extout" ELSE "ok"
HeaderClass(s) == LET r == DecHeader(s) IN IF r.ok THEN "ok" ELSE ErrClass(r)
BlockClass(s) == LET r == DecBlock(s) IN
  (IF r.ok THEN "ok" ELSE ErrClass(r)) \o (IF r.extin THEN "+extin" ELSE "")
BytesClass(target, s) == CASE target = "tx" -> TxClass(s)
                           [] target = "header" -> HeaderClass(s)
                           [] target = "block" -> BlockClass(s)
(* text = what UnmarshalText receives *)
TextClass(target, t) == LET h == HexDec(t) IN IF ~h.ok THEN ErrClass(h) ELSE BytesClass(target, h.v)
(* JSON = what json.Unmarshal into the value receives *)
JsonClass(target, t) == LET j == JsonDec(t) IN
  IF ~j.ok THEN ErrClass(j) ELSE IF j.null THEN "ok" ELSE TextClass(target, j.v)

(* The memory budget of C05: decoding an input of n bytes (n = length of the  *)
(* text or message handed to the decoder) may allocate at most this much.     *)
AllocK == 256
AllocC == 65536
AllocBound(n) == AllocK * n + AllocC
=============================================================================
