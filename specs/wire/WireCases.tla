------------------------------ MODULE WireCases ------------------------------
(* C04, specification side: the round-trip theorem  Dec(Enc(v)) = v  and       *)
(* SerializedSize(v) = Len(Enc(v))  checked by TLC over a structured family of *)
(* small well-formed values, which is exported (value + its encoding) so that  *)
(* the Go driver can build the same values with the real types.                *)
(*                                                                             *)
(* The family: every field of every input/output/header kind ranges over its   *)
(* boundary domain while the other fields keep a default (one factor at a      *)
(* time), all combinations of the three suffixes, all ordered pairs of input   *)
(* kinds and of output kinds, supLink lists with sparse signature slots, and   *)
(* blocks over a sample of the transactions under the three flags. Tier        *)
(* "thorough" widens the domains and adds all two-factor combinations.         *)
EXTENDS WireBlock, Json, FiniteSets

CONSTANT Tier
VARIABLES grp, c

Thorough == Tier = "thorough"

A  == {0, 127, 128, 255}
B0 == {<<>>}
B1 == {<<a>> : a \in A}
B2 == {<<a, b>> : a \in A, b \in A}
B3 == {<<a, b, x>> : a \in A, b \in A, x \in A}
Bytes2 == B0 \cup B1 \cup B2 \cup (IF Thorough THEN B3 ELSE {})
(* length-prefix boundaries: 127 and 128 bytes (one / two prefix bytes), 300 *)
BytesX == Bytes2 \cup {Rep(127, 1), Rep(128, 2)} \cup (IF Thorough THEN {Rep(300, 3)} ELSE {})
Sfx    == {<<>>, <<0>>, <<255, 128>>}
LItems == {<<>>, <<0>>, <<255, 128>>}
Lists  == {<<>>} \cup {<<x>> : x \in LItems} \cup {<<x, y>> : x \in LItems, y \in LItems}
             \cup {<<<<1>>, <<>>, <<2, 3>>>>} \cup (IF Thorough THEN {Rep(130, <<>>), Rep(3, Rep(128, 9))} ELSE {})
P31  == <<127, 127, 127, 127, 7>>            \* 2^31-1
P31p == <<0, 0, 0, 0, 8>>                    \* 2^31
P63  == Rep(9, 127)                          \* 2^63-1
U64s == {U0, U1, <<127>>, <<0, 1>>, P31, P31p, P63} \cup (IF Thorough THEN {<<0, 0, 1>>, <<127, 127>>, <<1, 0, 0, 0, 0, 0, 0, 0, 64>>} ELSE {})
RECURSIVE Iota(_)
Iota(n) == IF n = 0 THEN <<>> ELSE Iota(n - 1) \o <<n>>
H1 == Rep(32, 17)
H2 == Iota(32)
Hashes == {ZeroHash, Rep(32, 255), H1, H2}

DSpend == [av |-> U1, kind |-> "spend", srcId |-> H1, assetId |-> H2, amount |-> <<5>>, srcPos |-> U0, vmver |-> U1,
           prog |-> <<81>>, state |-> <<>>, scsuffix |-> <<>>, args |-> <<>>, csuffix |-> <<>>, wsuffix |-> <<>>]
DVeto  == [av |-> U1, kind |-> "veto", srcId |-> H2, assetId |-> H1, amount |-> <<0, 1>>, srcPos |-> U1, vmver |-> U1,
           prog |-> <<0, 81>>, state |-> <<>>, scsuffix |-> <<>>, vote |-> <<7, 7>>, args |-> <<>>, csuffix |-> <<>>, wsuffix |-> <<>>]
DIss0  == [av |-> U1, kind |-> "issuance", nonce |-> <<9>>, assetId |-> ZeroHash, amount |-> <<3>>, def |-> <<123, 125>>,
           vmver |-> U1, prog |-> <<81>>, args |-> <<>>, csuffix |-> <<>>, wsuffix |-> <<>>]
FixAid(i) == [i EXCEPT !.assetId = ModelAid(i.def, i.vmver, i.prog)]
DIss   == FixAid(DIss0)
DCb    == [av |-> U1, kind |-> "coinbase", arb |-> <<0, 1, 2>>, csuffix |-> <<>>, wsuffix |-> <<>>]
DOrig  == [av |-> U1, kind |-> "original", assetId |-> H2, amount |-> <<7>>, vmver |-> U1, prog |-> <<81>>, state |-> <<>>,
           csuffix |-> <<>>]
DVote  == [av |-> U1, kind |-> "vote", vote |-> <<8, 8, 8>>, assetId |-> H1, amount |-> <<0, 0, 1>>, vmver |-> U1,
           prog |-> <<0, 81>>, state |-> <<<<1>>>>, csuffix |-> <<>>]

SCDom == [srcId |-> Hashes, assetId |-> Hashes, amount |-> U64s, srcPos |-> U64s, prog |-> BytesX,
          state |-> Lists, scsuffix |-> Sfx \cup Bytes2, args |-> Lists, csuffix |-> Sfx, wsuffix |-> Sfx]
VetoDom == [f \in DOMAIN SCDom \cup {"vote"} |-> IF f = "vote" THEN BytesX ELSE SCDom[f]]
IssDom == [nonce |-> BytesX, amount |-> U64s, def |-> BytesX, vmver |-> U64s, prog |-> BytesX, args |-> Lists,
           csuffix |-> Sfx, wsuffix |-> Sfx]
CbDom  == [arb |-> BytesX, csuffix |-> Sfx, wsuffix |-> Sfx]
OutDom == [assetId |-> Hashes, amount |-> U64s, prog |-> BytesX \cup {<<106>>}, state |-> Lists, csuffix |-> Sfx \cup Bytes2]
VoteDom == [f \in DOMAIN OutDom \cup {"vote"} |-> IF f = "vote" THEN BytesX ELSE OutDom[f]]

One(d, dom) == UNION {{[d EXCEPT ![f] = x] : x \in dom[f]} : f \in DOMAIN dom}
(* two-factor combinations (thorough) range over at most 4 boundary values per field *)
RECURSIVE Pick(_,_)
Pick(S, n) == IF n = 0 \/ S = {} THEN {} ELSE LET x == CHOOSE y \in S : TRUE IN {x} \cup Pick(S \ {x}, n - 1)
Small(S) == IF Cardinality(S) <= 4 THEN S ELSE Pick(S \ {<<>>}, 3) \cup ({<<>>} \cap S)
Two(d, dom) == IF ~Thorough THEN {} ELSE
  UNION {UNION {{[d EXCEPT ![f] = x, ![g] = y] : x \in Small(dom[f]), y \in Small(dom[g])} : g \in DOMAIN dom \ {f}} : f \in DOMAIN dom}
Vary(d, dom) == One(d, dom) \cup Two(d, dom)

Spends == Vary(DSpend, SCDom)
            \cup {[DSpend EXCEPT !.scsuffix = x, !.csuffix = y, !.wsuffix = z] : x \in Sfx, y \in Sfx, z \in Sfx}
Vetos  == Vary(DVeto, VetoDom)
            \cup {[DVeto EXCEPT !.scsuffix = x, !.csuffix = y, !.wsuffix = z] : x \in Sfx, y \in Sfx, z \in Sfx}
Isss   == {FixAid(i) : i \in Vary(DIss0, IssDom)}
Cbs    == Vary(DCb, CbDom) \cup {[DCb EXCEPT !.csuffix = y, !.wsuffix = z] : y \in Sfx, z \in Sfx}
Inputs == Spends \cup Vetos \cup Isss \cup Cbs
ExtAvs == {U0, <<2>>, P63}
ExtOuts == {[av |-> a, kind |-> "original", csuffix |-> x] : a \in ExtAvs, x \in Sfx}
             \cup {[av |-> a, kind |-> "vote", vote |-> v, csuffix |-> x] : a \in ExtAvs, v \in {<<>>, <<1, 2>>}, x \in Sfx}
Outputs == Vary(DOrig, OutDom) \cup Vary(DVote, VoteDom) \cup ExtOuts

T0 == [version |-> U1, timeRange |-> U0, inputs |-> <<>>, outputs |-> <<>>]
RichIn  == {[DSpend EXCEPT !.args = <<<<1>>, <<>>>>, !.state = <<<<2, 2>>>>, !.wsuffix = <<3>>],
            [DVeto EXCEPT !.args = <<<<4>>>>, !.csuffix = <<5>>],
            FixAid([DIss0 EXCEPT !.args = <<<<6>>, <<7>>>>, !.def = <<>>]),
            [DCb EXCEPT !.arb = <<>>]}
RichOut == {DOrig, DVote, [av |-> <<2>>, kind |-> "original", csuffix |-> <<9>>], [DOrig EXCEPT !.prog = <<106, 1>>]}
TxShapes == {[T0 EXCEPT !.inputs = <<a, b>>, !.outputs = <<x, y>>] : a \in RichIn, b \in RichIn, x \in RichOut, y \in RichOut}

(* supLinks: NSIG signature slots, sparse *)
Sig64 == Rep(64, 171)
SigPat == {{}, {1}, {NSIG}, {2, 5}, 1..NSIG}
Sigs(P, sig) == [k \in 1..NSIG |-> IF k \in P THEN sig ELSE <<>>]
RECURSIVE TupleOf(_,_)
TupleOf(f, n) == IF n = 0 THEN <<>> ELSE TupleOf(f, n - 1) \o <<f[n]>>
Link(h, x, P, sig) == [height |-> h, hash |-> x, sigs |-> TupleOf(Sigs(P, sig), NSIG)]
Links1 == {Link(<<1>>, H1, P, Sig64) : P \in SigPat} \cup {Link(h, H2, {3}, <<1>>) : h \in U64s}
             \cup {Link(U0, ZeroHash, {1, NSIG}, g) : g \in BytesX}
LinkLists == {<<>>} \cup {<<l>> : l \in Links1}
               \cup {<<Link(<<1>>, H1, P, Sig64), Link(<<0, 1>>, H2, Q, <<2, 2>>)>> : P \in SigPat, Q \in SigPat}
               \cup {<<Link(U0, H1, {}, <<>>), Link(U1, H1, {1}, Sig64), Link(<<2>>, H2, 1..NSIG, Sig64)>>}
DHeader == [version |-> U1, height |-> <<100>>, prev |-> H1, timestamp |-> <<0, 0, 0, 1>>, root |-> H2, witness |-> Sig64,
            suplinks |-> <<>>]
HdrDom == [version |-> U64s, height |-> U64s, prev |-> Hashes, timestamp |-> U64s, root |-> Hashes,
           witness |-> BytesX \cup {Sig64}, suplinks |-> LinkLists]

BlockTxs0 == {[T0 EXCEPT !.inputs = <<i>>, !.outputs = <<DOrig>>] : i \in RichIn} \cup {T0}
BlockTxs == BlockTxs0 \cup (IF Thorough THEN TxShapes ELSE {})
BlockHdrs == {DHeader, ZeroHeader, [DHeader EXCEPT !.suplinks = <<Link(<<1>>, H1, {2, 5}, Sig64)>>]}

(* the family in groups: one initial state per group, the group's values are its successors *)
(* (TLC generates initial states with one thread but explores states with all workers)      *)
TxOf(S)  == {[k |-> "tx", v |-> t] : t \in S}
In1(S)   == {[T0 EXCEPT !.inputs = <<i>>, !.outputs = <<DOrig>>] : i \in S}
Out1(S)  == {[T0 EXCEPT !.inputs = <<DSpend>>, !.outputs = <<o>>] : o \in S}
NG == 12
Group(n) ==
  CASE n = 1 -> TxOf({[T0 EXCEPT !.version = v] : v \in U64s} \cup {[T0 EXCEPT !.timeRange = v] : v \in U64s}
                     \cup {[T0 EXCEPT !.inputs = <<i>>] : i \in RichIn} \cup {[T0 EXCEPT !.outputs = <<o>>] : o \in RichOut}
                     \cup {[T0 EXCEPT !.inputs = <<DCb, DSpend, DVeto, DIss>>, !.outputs = <<DVote, DOrig, DVote>>]})
    [] n = 2 -> TxOf(In1(Spends))
    [] n = 3 -> TxOf(In1(Vetos))
    [] n = 4 -> TxOf(In1(Isss))
    [] n = 5 -> TxOf(In1(Cbs))
    [] n = 6 -> TxOf(Out1(Vary(DOrig, OutDom)))
    [] n = 7 -> TxOf(Out1(Vary(DVote, VoteDom) \cup ExtOuts))
    [] n = 8 -> TxOf(TxShapes)
    [] n = 9 -> {[k |-> "header", v |-> h] : h \in Vary(DHeader, [f \in DOMAIN HdrDom \ {"suplinks"} |-> HdrDom[f]]) \cup {ZeroHeader}}
    [] n = 10 -> {[k |-> "header", v |-> [DHeader EXCEPT !.suplinks = l]] : l \in LinkLists}
    [] n = 11 -> {[k |-> "block", v |-> b] : b \in {[h |-> h, txs |-> <<>>] : h \in BlockHdrs}
                                                  \cup {[h |-> h, txs |-> <<t>>] : h \in BlockHdrs, t \in BlockTxs}}
    [] n = 12 -> {[k |-> "block", v |-> b] : b \in {[h |-> DHeader, txs |-> <<t, u>>] : t \in BlockTxs, u \in BlockTxs0}
                                                  \cup {[h |-> DHeader, txs |-> <<t, T0, t>>] : t \in BlockTxs}}

-----------------------------------------------------------------------------
(* primitive layer theorems on their own (wider domains) *)
Digits == 0..127
UvAll == {<<>>} \cup {<<a>> : a \in 1..127} \cup {<<a, b>> : a \in {0, 1, 127}, b \in {1, 64, 127}}
           \cup {Rep(k, 0) \o <<1>> : k \in 0..9} \cup {Rep(k, 127) : k \in 1..9} \cup {Rep(9, 127) \o <<1>>}
ASSUME \A d \in UvAll : IsU64(d) /\ UvarRoundTrip(d)
ASSUME \A b \in BytesX : StrRoundTrip(b) /\ HexRoundTrip(b)
ASSUME \A l \in Lists : StrsRoundTrip(l)
ASSUME \A n \in {0, 1, 127, 128, 16383, 16384, 2097151, 2097152, 268435455, 268435456, 2147483647} :
          ToInt(FromInt(n)) = n /\ Fits31(FromInt(n)) /\ RdU31(EncInt(n), 1, Len(EncInt(n)), "x").v = n
ASSUME ~Fits31(P31p) /\ Fits31(P31) /\ Fits63(P63) /\ ~Fits63(Rep(9, 0) \o <<1>>)
(* non-minimal and over-long varints are decoded as encoding/binary does *)
ASSUME RdUvar(<<128, 0>>, 1, 2, "x") = Ok(U0, 3)
ASSUME RdUvar(Rep(9, 255) \o <<1>>, 1, 10, "x").ok /\ RdUvar(Rep(9, 255) \o <<2>>, 1, 10, "x").err = "overflow"
ASSUME RdUvar(Rep(10, 128) \o <<1>>, 1, 11, "x").err = "overflow" /\ RdUvar(<<128>>, 1, 1, "x").err = "eof"
ASSUME RdU63(Rep(9, 128) \o <<1>>, 1, 10, "x").err = "range" /\ RdU31(<<128, 128, 128, 128, 8>>, 1, 5, "x").err = "range"

-----------------------------------------------------------------------------
WF(x) == CASE x.k = "tx" -> WFTx(x.v) [] x.k = "header" -> WFHeader(x.v) [] x.k = "block" -> WFBlock(x.v)
RoundTrip(x) ==
  CASE x.k = "tx" -> TxRoundTrip(x.v) /\ SerializedSize(x.v) = Len(EncTx(x.v))
    [] x.k = "header" -> HeaderRoundTrip(x.v)
                         /\ DecHeader(EncBlock([h |-> x.v, txs |-> <<>>], 3)).v = x.v      \* a full block read as a header
    [] x.k = "block" -> \A fl \in {1, 2, 3} : BlockRoundTrip(x.v, fl)
Enc(x, fl) == CASE x.k = "tx" -> EncTx(x.v) [] x.k = "header" -> EncHeader(x.v) [] x.k = "block" -> EncBlock(x.v, fl)
Out(x) == [k |-> x.k, v |-> x.v, enc |-> Enc(x, 3),
           enc1 |-> IF x.k = "block" THEN Enc(x, 1) ELSE <<>>, enc2 |-> IF x.k = "block" THEN Enc(x, 2) ELSE <<>>]

None == [k |-> "none"]
Init == grp \in 1..NG /\ c = None
Next == c = None /\ grp' = grp /\ c' \in Group(grp) /\ PrintT("EXPORT " \o ToJson(Out(c')))
WellFormed == c # None => WF(c)
RoundTrips == c # None => RoundTrip(c)
=============================================================================
