------------------------------ MODULE WireClass ------------------------------
(* C05, conformance side for inputs produced outside TLC (seeded random       *)
(* mutations of real encodings, recorded by harness/cmd/c05 in inputs.ndjson  *)
(* as [i, target, istext, b, t]): the specification's total decoders are      *)
(* evaluated on every recorded input and give its verdict class and its       *)
(* memory budget AllocBound.  An evaluation error here would mean a decoder   *)
(* of the specification is not total.                                         *)
EXTENDS WireMsg, Json

VARIABLES i
In == ndJsonDeserialize("inputs.ndjson")

TextTargets == {"tx", "header", "block"}
ClassOf(x) ==
  IF x.target \in TextTargets
    THEN (IF x.istext THEN TextClass(x.target, x.t) ELSE BytesClass(x.target, x.b))
    ELSE MsgClass(x.target, x.b)
InLen(x) == IF x.istext THEN Len(x.t) ELSE IF x.target \in TextTargets THEN 2 * Len(x.b) ELSE Len(x.b)
Verdict(n) == LET x == In[n] IN [i |-> x.i, class |-> ClassOf(x), bound |-> AllocBound(InLen(x))]

Init == i = 0
Next == i = 0 /\ i' \in 1..Len(In) /\ PrintT("EXPORT " \o ToJson(Verdict(i')))
=============================================================================
