------------------------------ MODULE WireJudge ------------------------------
(* C04, conformance side: judges what the real code did with a value.         *)
(* obs.ndjson holds one record per value v (enumerated by WireCases.tla or    *)
(* random, produced by harness/cmd/c04):                                      *)
(*   k, flag, v           the abstract value (block: serialisation flag)      *)
(*   hex                  bytes MarshalText produced (merr if it failed)      *)
(*   derr, v2             UnmarshalText of those bytes: error / decoded value *)
(*   size, bsize          recorded SerializedSize after decoding / on build   *)
(*   idEq, jsonOk, panic  ids agree; JSON form round-trips; recovered panic   *)
(* The specification demands: hex = Enc(v); decoding succeeds with v2 = v     *)
(* (the flag's view of v for blocks); both sizes = Len(Enc) of the            *)
(* transactions; ids equal; JSON form equal. The verdict is "ok" or a         *)
(* structural signature naming the first field in which the code's bytes, as  *)
(* read by the specification's decoder, differ from v.                        *)
EXTENDS WireBlock, Json

VARIABLES i

Obs == ndJsonDeserialize("obs.ndjson")

RECURSIVE FD(_,_,_)
FD(a, b, fs) == IF fs = <<>> THEN "" ELSE IF a[fs[1]] # b[fs[1]] THEN fs[1] ELSE FD(a, b, Tail(fs))

InFields(kind) ==
  CASE kind = "issuance" -> <<"av", "nonce", "assetId", "amount", "def", "vmver", "prog", "args", "csuffix", "wsuffix">>
    [] kind = "spend" -> <<"av", "srcId", "assetId", "amount", "srcPos", "vmver", "prog", "state", "scsuffix", "args", "csuffix", "wsuffix">>
    [] kind = "veto" -> <<"av", "srcId", "assetId", "amount", "srcPos", "vmver", "prog", "state", "scsuffix", "vote", "args", "csuffix", "wsuffix">>
    [] kind = "coinbase" -> <<"av", "arb", "csuffix", "wsuffix">>
    [] OTHER -> <<"av", "csuffix", "wsuffix">>
OutFields(o) == <<"av">> \o (IF o.kind = "vote" THEN <<"vote">> ELSE <<>>)
                  \o (IF o.av = U1 THEN <<"assetId", "amount", "vmver", "prog", "state">> ELSE <<>>) \o <<"csuffix">>

DiffIn(a, b) == IF a.kind # b.kind THEN "in.kind"
                ELSE IF DOMAIN a # DOMAIN b THEN "in." \o a.kind \o ".shape"
                ELSE LET f == FD(a, b, InFields(a.kind)) IN IF f = "" THEN "" ELSE "in." \o a.kind \o "." \o f
DiffOut(a, b) == IF a.kind # b.kind THEN "out.kind"
                 ELSE IF DOMAIN a # DOMAIN b THEN "out." \o a.kind \o ".shape"
                 ELSE LET f == FD(a, b, OutFields(a)) IN IF f = "" THEN "" ELSE "out." \o a.kind \o "." \o f
RECURSIVE DiffList(_,_,_,_)
DiffList(which, a, b, k) ==
  IF k > Len(a) THEN ""
  ELSE LET d == CASE which = "in" -> DiffIn(a[k], b[k]) [] which = "out" -> DiffOut(a[k], b[k]) IN
       IF d # "" THEN d ELSE DiffList(which, a, b, k + 1)
DiffTx(a, b) ==
  IF a.version # b.version THEN "version" ELSE IF a.timeRange # b.timeRange THEN "timeRange"
  ELSE IF Len(a.inputs) # Len(b.inputs) THEN "ninputs" ELSE IF Len(a.outputs) # Len(b.outputs) THEN "noutputs"
  ELSE LET d == DiffList("in", a.inputs, b.inputs, 1) IN
       IF d # "" THEN d ELSE DiffList("out", a.outputs, b.outputs, 1)
RECURSIVE DiffLinks(_,_,_)
DiffLinks(a, b, k) ==
  IF k > Len(a) THEN ""
  ELSE LET f == FD(a[k], b[k], <<"height", "hash", "sigs">>) IN
       IF f # "" THEN "suplink." \o f ELSE DiffLinks(a, b, k + 1)
DiffHeader(a, b) ==
  LET f == FD(a, b, <<"version", "height", "prev", "timestamp", "root", "witness">>) IN
  IF f # "" THEN f ELSE IF Len(a.suplinks) # Len(b.suplinks) THEN "nsuplinks" ELSE DiffLinks(a.suplinks, b.suplinks, 1)
RECURSIVE DiffTxs(_,_,_)
DiffTxs(a, b, k) == IF k > Len(a) THEN "" ELSE LET d == DiffTx(a[k], b[k]) IN IF d # "" THEN "tx." \o d ELSE DiffTxs(a, b, k + 1)
DiffBlock(a, b) ==
  LET d == DiffHeader(a.h, b.h) IN
  IF d # "" THEN "h." \o d ELSE IF Len(a.txs) # Len(b.txs) THEN "ntxs" ELSE DiffTxs(a.txs, b.txs, 1)
Diff(k, a, b) == CASE k = "tx" -> DiffTx(a, b) [] k = "header" -> DiffHeader(a, b) [] k = "block" -> DiffBlock(a, b)

View(o) == IF o.k = "block" THEN BlockView(o.v, o.flag) ELSE o.v
Enc(o)  == CASE o.k = "tx" -> EncTx(o.v) [] o.k = "header" -> EncHeader(o.v) [] o.k = "block" -> EncBlock(o.v, o.flag)
Dec(o, s) == CASE o.k = "tx" -> DecTx(s) [] o.k = "header" -> DecHeader(s) [] o.k = "block" -> DecBlock(s)
RECURSIVE SumSizes(_)
SumSizes(txs) == IF txs = <<>> THEN 0 ELSE SerializedSize(txs[1]) + SumSizes(Tail(txs))
Size(o) == CASE o.k = "tx" -> SerializedSize(o.v) [] o.k = "header" -> Len(Enc(o)) [] o.k = "block" -> IF o.flag = 1 THEN 0 ELSE SumSizes(o.v.txs)

Judge(o) ==
  IF o.panic # "" THEN "panic:" \o o.k
  ELSE IF o.merr # "" THEN "marshal-error:" \o o.k
  ELSE IF o.hex # Enc(o) THEN
     LET d == Dec(o, o.hex) IN
     "marshal:" \o o.k \o ":" \o
       (IF ~d.ok THEN "undecodable:" \o d.err \o "@" \o d.at
        ELSE LET f == Diff(o.k, View(o), d.v) IN IF f = "" THEN "noncanonical" ELSE "field=" \o f)
  ELSE IF o.derr # "" THEN "unmarshal-error:" \o o.k
  ELSE IF o.v2 # View(o) THEN "unmarshal:" \o o.k \o ":field=" \o Diff(o.k, View(o), o.v2)
  ELSE IF o.size # Size(o) \/ o.bsize # Size(o) THEN "size:" \o o.k
  ELSE IF ~o.idEq THEN "id:" \o o.k
  ELSE IF ~o.jsonOk THEN "json:" \o o.k
  ELSE "ok"

Verdict(n) == LET o == Obs[n] IN [i |-> o.i, verdict |-> Judge(o)]

(* one step per observation; sharding over several TLC processes is done by the orchestrator *)
Init == i = 0
Next == i = 0 /\ i' \in 1..Len(Obs) /\ PrintT("EXPORT " \o ToJson(Verdict(i')))
=============================================================================
