------------------------------- MODULE WireMsg -------------------------------
(* The network message envelopes of netsync/messages/chain_msg.go and          *)
(* netsync/consensusmgr/consensus_msg.go as decoded by decodeMessage (legacy   *)
(* go-wire binary form): one type byte, then the fields of the message struct  *)
(* in order.  Field kinds:                                                     *)
(*   "u64"    8 bytes big-endian            "h32"   32 raw bytes               *)
(*   "bytes"  go-wire varint length + bytes "h32s"  varint count + 32-byte items *)
(*   "bytess" varint count + "bytes" items                                      *)
(* go-wire varint: one size byte (high nibble F = negative) + that many        *)
(* big-endian bytes.  Payload fields carry the TEXT forms of WireBlock.tla     *)
(* (hex, or JSON-quoted hex), so the class of a message is the class of the    *)
(* envelope and, if that is ok, of the payload the node decodes next.          *)
EXTENDS WireBlock

MsgLimit == 22020098          \* MaxBlockchainResponseSize: go-wire refuses longer byte slices

ChainGrammar(t) ==
  CASE t = 16 -> <<"u64", "h32">>                     \* GetBlock
    [] t = 17 -> <<"bytes">>                          \* Block          (block text)
    [] t = 18 -> <<"h32s", "h32", "u64">>             \* GetHeaders
    [] t = 19 -> <<"bytess">>                         \* Headers        (JSON header texts)
    [] t = 20 -> <<"h32s", "h32">>                    \* GetBlocks
    [] t = 21 -> <<"bytess">>                         \* Blocks         (JSON block texts)
    [] t = 33 -> <<"u64", "h32", "u64", "h32">>       \* Status
    [] t = 48 -> <<"bytes">>                          \* Transaction    (tx text)
    [] t = 49 -> <<"bytess">>                         \* Transactions   (tx texts)
    [] t = 64 -> <<"bytes">>                          \* MineBlock      (block text)
    [] t = 80 -> <<"bytess">>                         \* FilterLoad
    [] t = 81 -> <<"bytes">>                          \* FilterAdd
    [] t = 82 -> <<>>                                 \* FilterClear
    [] t = 96 -> <<"u64", "h32">>                     \* GetMerkleBlock
    [] t = 97 -> <<"bytes", "h32s", "bytess", "bytes">>  \* MerkleBlock
    [] OTHER -> <<"?">>
ConsGrammar(t) ==
  CASE t = 16 -> <<"h32", "h32", "bytes", "bytes">>   \* BlockVerification (two hashes as 4 x u64 each)
    [] t = 17 -> <<"bytes">>                          \* BlockPropose   (block text)
    [] OTHER -> <<"?">>
Grammar(fam, t) == IF fam = "chainmsg" THEN ChainGrammar(t) ELSE ConsGrammar(t)

-----------------------------------------------------------------------------
(* go-wire ReadVarint. The value is int(uint64 big-endian), negated if the flag *)
(* is set; it is returned as [neg, huge, n]: n is exact when huge = FALSE       *)
(* (magnitude < 2^31), which is all a bounded input can distinguish.            *)
RECURSIVE PadL(_,_)
PadL(b, n) == IF Len(b) >= n THEN b ELSE PadL(<<0>> \o b, n)
RECURSIVE Inc8(_,_)
Inc8(b, k) == IF k = 0 THEN b ELSE IF b[k] = 255 THEN Inc8([b EXCEPT ![k] = 0], k - 1) ELSE [b EXCEPT ![k] = b[k] + 1]
TwoCompl(b) == Inc8([k \in 1..8 |-> 255 - b[k]], 8)
Small8(b) == b[1] = 0 /\ b[2] = 0 /\ b[3] = 0 /\ b[4] = 0 /\ b[5] < 128
Int8(b) == ((b[5] * 256 + b[6]) * 256 + b[7]) * 256 + b[8]
IsZero8(b) == \A k \in 1..8 : b[k] = 0
RdWInt(s, p, lim, at) ==
  IF p > lim THEN Err("eof", at) ELSE
  LET sb == s[p]  negate == sb \div 16 = 15  sz == IF negate THEN sb % 16 ELSE sb IN
  IF sz > 8 THEN Err("overflow", at) ELSE
  IF sz = 0 THEN (IF negate THEN Err("negzero", at) ELSE Ok([neg |-> FALSE, huge |-> FALSE, n |-> 0], p + 1)) ELSE
  IF lim - p < sz THEN Err("eof", at) ELSE
  LET u == PadL(SubSeq(s, p + 1, p + sz), 8)
      top == u[1] >= 128                                 \* int(u) < 0
      mag == IF top THEN TwoCompl(u) ELSE u              \* |int(u)|  (2^63 for the minimum)
      isMin == top /\ IsZero8([u EXCEPT ![1] = u[1] - 128])
      neg == IF IsZero8(u) THEN FALSE ELSE IF negate THEN (~top \/ isMin) ELSE top
  IN Ok([neg |-> neg, huge |-> ~Small8(mag), n |-> IF Small8(mag) THEN Int8(mag) ELSE 0], p + 1 + sz)

(* ReadByteSlice: the length is checked against the message limit only, and the *)
(* buffer is allocated BEFORE the bytes are read.                               *)
RdWBytes(s, p, lim, at) ==
  LET l == RdWInt(s, p, lim, at) IN IF ~l.ok THEN l ELSE
  IF l.v.neg THEN Err("neglen", at) ELSE
  IF l.v.huge \/ l.v.n > MsgLimit - (l.p - 1) THEN Err("overflow", at) ELSE
  IF l.v.n > lim - l.p + 1 THEN Err("eof", at) ELSE Ok(SubSeq(s, l.p, l.p + l.v.n - 1), l.p + l.v.n)
RECURSIVE RdWItems(_,_,_,_,_,_,_)
RdWItems(kind, s, p, lim, n, acc, at) ==
  IF n = 0 THEN Ok(acc, p)
  ELSE LET r == IF kind = "h32" THEN RdRaw(s, p, lim, 32, at) ELSE RdWBytes(s, p, lim, at) IN
       IF ~r.ok THEN r ELSE RdWItems(kind, s, r.p, lim, n - 1, Append(acc, r.v), at)
(* slices: a negative count reads as the empty slice; the items are read one by one *)
RdWSlice(kind, s, p, lim, at) ==
  LET c == RdWInt(s, p, lim, at) IN IF ~c.ok THEN c ELSE
  IF c.v.neg THEN Ok(<<>>, c.p)
  ELSE RdWItems(kind, s, c.p, lim, IF c.v.huge THEN 2147483647 ELSE c.v.n, <<>>, at)
RdWField(k, s, p, lim) ==
  CASE k = "u64" -> RdRaw(s, p, lim, 8, "msg.u64")
    [] k = "h32" -> RdRaw(s, p, lim, 32, "msg.h32")
    [] k = "bytes" -> RdWBytes(s, p, lim, "msg.byteslice")
    [] k = "h32s" -> RdWSlice("h32", s, p, lim, "msg.h32s")
    [] k = "bytess" -> RdWSlice("bytes", s, p, lim, "msg.byteslice")
RECURSIVE RdWFields(_,_,_,_,_)
RdWFields(g, s, p, lim, acc) ==
  IF g = <<>> THEN Ok(acc, p)
  ELSE LET r == RdWField(g[1], s, p, lim) IN
       IF ~r.ok THEN r ELSE RdWFields(Tail(g), s, r.p, lim, Append(acc, r.v))

(* decodeMessage: type 0 is the nil message; bytes after the message are ignored *)
DecMsg(fam, s) ==
  IF s = <<>> THEN Err("eof", "msg.type") ELSE
  IF s[1] = 0 THEN [ok |-> TRUE, t |-> 0, f |-> <<>>, p |-> 2] ELSE
  LET g == Grammar(fam, s[1]) IN
  IF g = <<"?">> THEN Err("badtype", "msg.type") ELSE
  LET r == RdWFields(g, s, 2, Len(s), <<>>) IN
  IF ~r.ok THEN r ELSE [ok |-> TRUE, t |-> s[1], f |-> r.v, p |-> r.p]

(* the payload the node decodes right after the envelope (GetBlock, GetTransaction, ...) *)
RECURSIVE FirstBad(_,_,_)
FirstBad(form, target, l) ==       \* class of the first payload that is not plainly accepted
  IF l = <<>> THEN "ok"
  ELSE LET c == IF form = "json" THEN JsonClass(target, l[1]) ELSE TextClass(target, l[1]) IN
       IF c \in {"ok", "ok+extout"} THEN FirstBad(form, target, Tail(l)) ELSE c
PayloadClass(fam, m) ==
  IF fam = "chainmsg" THEN
    CASE m.t \in {17, 64} -> TextClass("block", m.f[1])
      [] m.t = 48 -> TextClass("tx", m.f[1])
      [] m.t = 49 -> FirstBad("text", "tx", m.f[1])
      [] m.t = 19 -> FirstBad("json", "header", m.f[1])
      [] m.t = 21 -> FirstBad("json", "block", m.f[1])
      [] OTHER -> ""
  ELSE IF m.t = 17 THEN TextClass("block", m.f[1]) ELSE ""
MsgClass(fam, s) ==
  LET m == DecMsg(fam, s) IN
  IF ~m.ok THEN ErrClass(m)
  ELSE LET pc == PayloadClass(fam, m) IN IF pc = "" THEN "ok" ELSE "ok/" \o pc

-----------------------------------------------------------------------------
(* token-level encoder; a message value is [t, f] with f matching Grammar(fam, t) *)
RECURSIVE BE(_)
BE(n) == IF n = 0 THEN <<>> ELSE BE(n \div 256) \o <<n % 256>>
WEnc(n) == <<Len(BE(n))>> \o BE(n)                       \* go-wire PutVarint of n >= 0
TWBytes(nm, b) == <<Tok("wlen", nm, WEnc(Len(b))), Tok("data", nm, b)>>
RECURSIVE TWItems(_,_,_)
TWItems(kind, nm, l) ==
  IF l = <<>> THEN <<>>
  ELSE (IF kind = "h32" THEN <<Tok("hash", nm, l[1])>> ELSE TWBytes(nm, l[1])) \o TWItems(kind, nm, Tail(l))
TWField(k, v) ==
  CASE k = "u64" -> <<Tok("data", "msg.u64", v)>>
    [] k = "h32" -> <<Tok("hash", "msg.h32", v)>>
    [] k = "bytes" -> TWBytes("msg.byteslice", v)
    [] k = "h32s" -> <<Tok("wcount", "msg.h32s", WEnc(Len(v)))>> \o TWItems("h32", "msg.h32s", v)
    [] k = "bytess" -> <<Tok("wcount", "msg.byteslices", WEnc(Len(v)))>> \o TWItems("bytes", "msg.byteslice", v)
RECURSIVE TWFields(_,_)
TWFields(g, f) == IF g = <<>> THEN <<>> ELSE TWField(g[1], f[1]) \o TWFields(Tail(g), Tail(f))
TMsg(fam, m) == TByte("msg.type", m.t) \o TWFields(Grammar(fam, m.t), m.f)
EncMsg(fam, m) == Flat(TMsg(fam, m))

MsgRoundTrip(fam, m) == LET b == EncMsg(fam, m)  r == DecMsg(fam, b) IN r.ok /\ r.t = m.t /\ r.f = m.f /\ r.p = Len(b) + 1
=============================================================================
