------------------------------- MODULE WireTx -------------------------------
(* Transactions (protocol/bc/types/{transaction,txinput,txoutput,issuance,    *)
(* spend,spend_commitment,coinbase,veto_input,original_output,vote_output,    *)
(* output_commitment}.go) as abstract values <-> bytes.                        *)
(*                                                                            *)
(* Abstract values (records; byte strings, U64 and 32-byte hashes as in       *)
(* Varint.tla):                                                               *)
(*  Tx     = [version, timeRange, inputs, outputs]                            *)
(*  Input  = [av, kind="issuance", nonce, assetId, amount, def, vmver, prog, args, csuffix, wsuffix] *)
(*         | [av, kind="spend", srcId, assetId, amount, srcPos, vmver, prog, state, scsuffix, args, csuffix, wsuffix] *)
(*         | [av, kind="veto",  ...spend fields..., vote, ...]                *)
(*         | [av, kind="coinbase", arb, csuffix, wsuffix]                     *)
(*         | [av, kind="ext", csuffix, wsuffix]      asset version # 1: both  *)
(*           extensible strings are opaque (forward-compatibility branch)     *)
(*  Output = [av, kind in {"original","vote"}, (vote), assetId, amount, vmver, prog, state, csuffix]  (av = 1) *)
(*         | [av, kind, (vote), csuffix]                                      (av # 1) *)
(* The issuance asset id is a hash of (prog, vmver, hash(def)); the hash is   *)
(* uninterpreted here: the value carries the id that is on the wire and       *)
(* Claims(tx) lists the equalities the decoder additionally demands.          *)
EXTENDS Varint

SCG == << <<"hash", "sc.srcId">>, <<"hash", "sc.assetId">>, <<"u63", "sc.amount">>, <<"u63", "sc.srcPos">>,
          <<"vm1", "sc.vmver">>, <<"str", "sc.prog">>, <<"strs", "sc.state">> >>
OCG == << <<"hash", "out.assetId">>, <<"u63", "out.amount">>, <<"vm1", "out.vmver">>,
          <<"str", "out.prog">>, <<"strs", "out.state">> >>
ICG == << <<"str", "iss.nonce">>, <<"hash", "iss.assetId">>, <<"u63", "iss.amount">> >>
IWG == << <<"str", "iss.def">>, <<"u63", "iss.vmver">>, <<"str", "iss.prog">> >>

(* The issuance asset id is sha3 of (prog, vmver, sha3(def)); the reader recomputes it *)
(* and refuses a mismatch. The hash is uninterpreted. AidMode = "model": the world of  *)
(* specification-made values, where the hash is the placeholder function ModelAid (the *)
(* Go drivers replace placeholder ids by the real hash before running the code).       *)
(* AidMode = "trusted": values recorded from the code; their ids are taken to be the   *)
(* hash, no check.                                                                     *)
CONSTANT AidMode
RECURSIVE SumB(_)
SumB(b) == IF b = <<>> THEN 0 ELSE (b[1] + SumB(Tail(b))) % 256
RECURSIVE Rp(_,_)
Rp(n, x) == IF n = 0 THEN <<>> ELSE <<x>> \o Rp(n - 1, x)
ModelAid(def, vmver, prog) ==
  <<165, 90, Len(def) % 256, SumB(def), Len(prog) % 256, SumB(prog)>> \o vmver \o Rp(10 - Len(vmver), 0) \o Rp(16, 170)

-----------------------------------------------------------------------------
(* decoders *)

(* SpendCommitment.readFrom: a nested extensible string *)
RdSC(s, p, lim) ==
  LET e == RdExt(s, p, lim, "sc.len") IN
  IF ~e.ok THEN e ELSE
  LET r == RdSeq(SCG, s, e.p, e.lim, <<>>) IN
  IF ~r.ok THEN r ELSE [ok |-> TRUE, f |-> r.v, suffix |-> Rest(s, r.p, e.lim), p |-> e.nx]

(* TxInput.readFrom *)
DecInput(s, p, lim) ==
  LET a == RdU63(s, p, lim, "in.av") IN IF ~a.ok THEN a ELSE
  LET c == RdExt(s, a.p, lim, "in.clen") IN IF ~c.ok THEN c ELSE
  IF a.v # U1 THEN
    LET w == RdExt(s, c.nx, lim, "in.wlen") IN IF ~w.ok THEN w ELSE
    Ok([av |-> a.v, kind |-> "ext", csuffix |-> Rest(s, c.p, c.lim), wsuffix |-> Rest(s, w.p, w.lim)], w.nx)
  ELSE
  LET t == RdByte(s, c.p, c.lim, "in.type") IN IF ~t.ok THEN t ELSE
  CASE t.v = 0 ->                                                   \* issuance
        LET cm == RdSeq(ICG, s, t.p, c.lim, <<>>) IN IF ~cm.ok THEN cm ELSE
        LET w == RdExt(s, c.nx, lim, "in.wlen") IN IF ~w.ok THEN w ELSE
        LET wt == RdSeq(IWG, s, w.p, w.lim, <<>>) IN IF ~wt.ok THEN wt ELSE
        IF AidMode = "model" /\ cm.v[2] # ModelAid(wt.v[1], wt.v[2], wt.v[3]) THEN Err("assetid", "iss.assetId") ELSE
        LET ar == RdStrs(s, wt.p, w.lim, "in.args") IN IF ~ar.ok THEN ar ELSE
        Ok([av |-> a.v, kind |-> "issuance", nonce |-> cm.v[1], assetId |-> cm.v[2], amount |-> cm.v[3],
            def |-> wt.v[1], vmver |-> wt.v[2], prog |-> wt.v[3], args |-> ar.v,
            csuffix |-> Rest(s, cm.p, c.lim), wsuffix |-> Rest(s, ar.p, w.lim)], w.nx)
    [] t.v = 1 \/ t.v = 3 ->                                          \* spend / veto
        LET sc == RdSC(s, t.p, c.lim) IN IF ~sc.ok THEN sc ELSE
        LET vt == IF t.v = 3 THEN RdStr(s, sc.p, c.lim, "veto.vote") ELSE Ok(<<>>, sc.p) IN IF ~vt.ok THEN vt ELSE
        LET w == RdExt(s, c.nx, lim, "in.wlen") IN IF ~w.ok THEN w ELSE
        LET ar == RdStrs(s, w.p, w.lim, "in.args") IN IF ~ar.ok THEN ar ELSE
        LET f == sc.f IN
        IF t.v = 1
          THEN Ok([av |-> a.v, kind |-> "spend", srcId |-> f[1], assetId |-> f[2], amount |-> f[3], srcPos |-> f[4],
                   vmver |-> f[5], prog |-> f[6], state |-> f[7], scsuffix |-> sc.suffix, args |-> ar.v,
                   csuffix |-> Rest(s, vt.p, c.lim), wsuffix |-> Rest(s, ar.p, w.lim)], w.nx)
          ELSE Ok([av |-> a.v, kind |-> "veto", srcId |-> f[1], assetId |-> f[2], amount |-> f[3], srcPos |-> f[4],
                   vmver |-> f[5], prog |-> f[6], state |-> f[7], scsuffix |-> sc.suffix, vote |-> vt.v, args |-> ar.v,
                   csuffix |-> Rest(s, vt.p, c.lim), wsuffix |-> Rest(s, ar.p, w.lim)], w.nx)
    [] t.v = 2 ->                                                   \* coinbase
        LET ab == RdStr(s, t.p, c.lim, "cb.arb") IN IF ~ab.ok THEN ab ELSE
        LET w == RdExt(s, c.nx, lim, "in.wlen") IN IF ~w.ok THEN w ELSE
        Ok([av |-> a.v, kind |-> "coinbase", arb |-> ab.v,
            csuffix |-> Rest(s, ab.p, c.lim), wsuffix |-> Rest(s, w.p, w.lim)], w.nx)
    [] OTHER -> Err("badtype", "in.type")

(* TxOutput.readFrom: the type byte is outside the commitment, the typed part  *)
(* (vote key) inside it and read whatever the asset version is; the output     *)
(* witness string is read and dropped.                                         *)
DecOutput(s, p, lim) ==
  LET a == RdU63(s, p, lim, "out.av") IN IF ~a.ok THEN a ELSE
  LET t == RdByte(s, a.p, lim, "out.type") IN IF ~t.ok THEN t ELSE
  IF t.v \notin {0, 1} THEN Err("badtype", "out.type") ELSE
  LET c == RdExt(s, t.p, lim, "out.clen") IN IF ~c.ok THEN c ELSE
  LET vt == IF t.v = 1 THEN RdStr(s, c.p, c.lim, "out.vote") ELSE Ok(<<>>, c.p) IN IF ~vt.ok THEN vt ELSE
  LET cm == IF a.v = U1 THEN RdSeq(OCG, s, vt.p, c.lim, <<>>) ELSE Ok(<<>>, vt.p) IN IF ~cm.ok THEN cm ELSE
  LET w == RdStr(s, c.nx, lim, "out.witness") IN IF ~w.ok THEN w ELSE
  LET sfx == Rest(s, cm.p, c.lim)  f == cm.v IN
  Ok(CASE a.v = U1 /\ t.v = 0 -> [av |-> a.v, kind |-> "original", assetId |-> f[1], amount |-> f[2], vmver |-> f[3],
                                   prog |-> f[4], state |-> f[5], csuffix |-> sfx]
       [] a.v = U1 /\ t.v = 1 -> [av |-> a.v, kind |-> "vote", vote |-> vt.v, assetId |-> f[1], amount |-> f[2],
                                   vmver |-> f[3], prog |-> f[4], state |-> f[5], csuffix |-> sfx]
       [] a.v # U1 /\ t.v = 0 -> [av |-> a.v, kind |-> "original", csuffix |-> sfx]
       [] OTHER               -> [av |-> a.v, kind |-> "vote", vote |-> vt.v, csuffix |-> sfx],
     w.p)

RECURSIVE RdMany(_,_,_,_,_,_)
(* n elements read by Elem (which = "in" | "out"); stops at the first error *)
RdMany(which, s, p, lim, n, acc) ==
  IF n = 0 THEN Ok(acc, p)
  ELSE LET r == IF which = "in" THEN DecInput(s, p, lim) ELSE DecOutput(s, p, lim) IN
       IF ~r.ok THEN r ELSE RdMany(which, s, r.p, lim, n - 1, Append(acc, r.v))

(* TxData.readFrom, embedded (a block holds several) *)
DecTxAt(s, p, lim) ==
  LET fl == RdByte(s, p, lim, "tx.flags") IN IF ~fl.ok THEN fl ELSE
  IF fl.v # 7 THEN Err("badflags", "tx.flags") ELSE
  LET ver == RdU63(s, fl.p, lim, "tx.version") IN IF ~ver.ok THEN ver ELSE
  LET tr == RdU63(s, ver.p, lim, "tx.timeRange") IN IF ~tr.ok THEN tr ELSE
  LET ni == RdU31(s, tr.p, lim, "tx.ninputs") IN IF ~ni.ok THEN ni ELSE
  LET ins == RdMany("in", s, ni.p, lim, ni.v, <<>>) IN IF ~ins.ok THEN ins ELSE
  LET no == RdU31(s, ins.p, lim, "tx.noutputs") IN IF ~no.ok THEN no ELSE
  LET outs == RdMany("out", s, no.p, lim, no.v, <<>>) IN IF ~outs.ok THEN outs ELSE
  Ok([version |-> ver.v, timeRange |-> tr.v, inputs |-> ins.v, outputs |-> outs.v], outs.p)

(* TxData.UnmarshalText after hex: the whole input must be one transaction *)
DecTx(s) == LET r == DecTxAt(s, 1, Len(s)) IN
  IF ~r.ok THEN r ELSE IF r.p <= Len(s) THEN Err("trailing", "tx") ELSE r

-----------------------------------------------------------------------------
(* token encoders *)
SCVals(i) == <<i.srcId, i.assetId, i.amount, i.srcPos, i.vmver, i.prog, i.state>>
TInput(i) ==
  TU63("in.av", i.av) \o
  CASE i.kind = "ext" -> TExt("in.clen", <<>>, i.csuffix) \o TExt("in.wlen", <<>>, i.wsuffix)
    [] i.kind = "issuance" ->
         TExt("in.clen", TByte("in.type", 0) \o TSeq(ICG, <<i.nonce, i.assetId, i.amount>>), i.csuffix) \o
         TExt("in.wlen", TSeq(IWG, <<i.def, i.vmver, i.prog>>) \o TStrs("in.args", i.args), i.wsuffix)
    [] i.kind = "spend" ->
         TExt("in.clen", TByte("in.type", 1) \o TExt("sc.len", TSeq(SCG, SCVals(i)), i.scsuffix), i.csuffix) \o
         TExt("in.wlen", TStrs("in.args", i.args), i.wsuffix)
    [] i.kind = "veto" ->
         TExt("in.clen", TByte("in.type", 3) \o TExt("sc.len", TSeq(SCG, SCVals(i)), i.scsuffix) \o TStr("veto.vote", i.vote),
              i.csuffix) \o
         TExt("in.wlen", TStrs("in.args", i.args), i.wsuffix)
    [] i.kind = "coinbase" ->
         TExt("in.clen", TByte("in.type", 2) \o TStr("cb.arb", i.arb), i.csuffix) \o TExt("in.wlen", <<>>, i.wsuffix)

TOutput(o) ==
  TU63("out.av", o.av) \o TByte("out.type", IF o.kind = "vote" THEN 1 ELSE 0) \o
  TExt("out.clen",
       (IF o.kind = "vote" THEN TStr("out.vote", o.vote) ELSE <<>>) \o
       (IF o.av = U1 THEN TSeq(OCG, <<o.assetId, o.amount, o.vmver, o.prog, o.state>>) ELSE <<>>),
       o.csuffix) \o
  TStr("out.witness", <<>>)

RECURSIVE TMany(_,_)
TMany(which, l) == IF l = <<>> THEN <<>>
                   ELSE (IF which = "in" THEN TInput(l[1]) ELSE TOutput(l[1])) \o TMany(which, Tail(l))
TTx(tx) == TByte("tx.flags", 7) \o TU63("tx.version", tx.version) \o TU63("tx.timeRange", tx.timeRange) \o
           <<Tok("count", "tx.ninputs", EncInt(Len(tx.inputs)))>> \o TMany("in", tx.inputs) \o
           <<Tok("count", "tx.noutputs", EncInt(Len(tx.outputs)))>> \o TMany("out", tx.outputs)

EncInput(i)  == Flat(TInput(i))
EncOutput(o) == Flat(TOutput(o))
EncTx(tx)    == Flat(TTx(tx))
SerializedSize(tx) == Len(EncTx(tx))

-----------------------------------------------------------------------------
(* well-formedness = what the writer/reader pair is meant to round-trip *)
WFInput(i)  == /\ Fits63(i.av)
               /\ i.kind # "ext"                   \* a decoded av # 1 input has no typed part; it cannot be mapped (C05)
               /\ i.av = U1
               /\ i.kind \in {"spend", "veto"} => i.vmver = U1 /\ Fits63(i.amount) /\ Fits63(i.srcPos)
               /\ i.kind = "issuance" => Fits63(i.vmver) /\ Fits63(i.amount)
WFOutput(o) == /\ Fits63(o.av)
               /\ o.av = U1 => o.vmver = U1 /\ Fits63(o.amount)
WFTx(tx)    == /\ Fits63(tx.version) /\ Fits63(tx.timeRange)
               /\ \A k \in 1..Len(tx.inputs) : WFInput(tx.inputs[k])
               /\ \A k \in 1..Len(tx.outputs) : WFOutput(tx.outputs[k])

HasExtIn(tx) == \E k \in 1..Len(tx.inputs) : tx.inputs[k].kind = "ext"
HasExtOut(tx) == \E k \in 1..Len(tx.outputs) : tx.outputs[k].av # U1
(* issuance inputs of a decoded value: the decoder also demands            *)
(* assetId = AssetIdOf(prog, vmver, def) for each (hash uninterpreted)      *)
Claims(tx) == SelectSeq(tx.inputs, LAMBDA i : i.kind = "issuance")

(* C04, specification level *)
TxRoundTrip(tx) == LET b == EncTx(tx) IN DecTx(b) = Ok(tx, Len(b) + 1)
=============================================================================
