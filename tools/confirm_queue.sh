#!/bin/bash
# confirms every delivered seed that has not been processed yet, one after the other
cd /verif
declare -A extra=( [C16]=C17 [C17]=C16 [C13]=C10,C11 [C10]=C13 [C11]=C21 [C21]=C11 [C18]=C16 [C19]=C16,C17 [C23]=C22 [C22]=C23 [C14]=C38 [C38]=C14,C13 [C24]=C25 [C25]=C24 [C02]=C01 [C06]=C08 [C07]=C08 [C08]=C07 [C09]=C08 [C04]=C05,C03 [C05]=C04 [C03]=C04 [C20]=C19 [C37]=C16,C11 )
while true; do
  did=0
  for d in ${SEED_SRC:-/tmp/seeds}/C*/; do
    id=$(basename $d)
    [ -f $d/meta.json ] || continue
    [ -f work/confirm${SEED_SUFFIX}_$id.log ] && continue
    chk=$id; [ -n "${extra[$id]}" ] && chk=$id,${extra[$id]}
    python3 tools/confirm_seed.py $id --checks $chk > work/confirm${SEED_SUFFIX}_$id.log 2>&1
    did=1
  done
  [ $did = 0 ] && sleep 120
  [ -f work/confirm${SEED_SUFFIX}_stop ] && exit 0
done
