#!/usr/bin/env python3
"""Confirms a seeded defect delivered by an independent sub-agent and files it under /verif/seeded/<ID>/.

  confirm_seed.py <ID> [--checks C11,C12] [--tier quick] [--keep]

Steps (all in a scratch worktree of /repo's HEAD, removed afterwards):
  1. apply patch.diff, build the touched packages, run the touched packages' tests + ./protocol/... ./test
  2. place the demonstration, run it with the patch (must FAIL) and without it (must PASS)
  3. run the listed checks against the patched worktree (VERIF_REPO) and record exit codes
Writes /verif/seeded/<ID>/{patch.diff, demo/, meta.json} when 1 and 2 hold.
"""
import json, os, re, shutil, subprocess, sys, time
pid = sys.argv[1]
args = sys.argv[2:]
checks = []
tier = "quick"
for i, a in enumerate(args):
    if a == "--checks": checks = args[i + 1].split(",")
    if a == "--tier": tier = args[i + 1]
SUF = os.environ.get("SEED_SUFFIX", "")
src = "%s/%s" % (os.environ.get("SEED_SRC", "/tmp/seeds"), pid)
wt = "/tmp/confirm%s_%s" % (SUF, pid)
env = dict(os.environ, GOFLAGS="-mod=mod", GOPROXY="off", GOSUMDB="off", GOTOOLCHAIN="local")
def sh(cmd, cwd=None, timeout=3000):
    p = subprocess.run(cmd, shell=True, cwd=cwd, env=env, stdout=subprocess.PIPE, stderr=subprocess.STDOUT, text=True, timeout=timeout)
    return p.returncode, p.stdout
meta = json.load(open(src + "/meta.json"))
patch = open(src + "/patch.diff").read()
files = re.findall(r"^\+\+\+ b/(\S+)", patch, re.M)
if any(f.endswith("_test.go") for f in files):
    print("REJECT: patch touches test files", files); sys.exit(1)
sh("git -C /repo worktree remove --force %s" % wt); shutil.rmtree(wt, ignore_errors=True)
rc, out = sh("git -C /repo worktree add %s HEAD" % wt)
assert rc == 0, out
res = {"files": files}
try:
    rc, out = sh("git apply %s/patch.diff" % src, cwd=wt)
    if rc != 0:
        print("REJECT: patch does not apply to HEAD:\n" + out); sys.exit(1)
    pkgs = sorted({"./" + os.path.dirname(f) for f in files})
    rc, out = sh("go build %s && go vet -tags verif %s >/dev/null 2>&1; go build -tags verif %s" % (" ".join(pkgs), " ".join(pkgs), " ".join(pkgs)), cwd=wt)
    if rc != 0:
        print("REJECT: does not build:\n" + out[-2000:]); sys.exit(1)
    tests = sorted(set(pkgs + ["./protocol/...", "./database/...", "./test", "./netsync/chainmgr", "./wallet/...", "./proposal/..."]))
    rc, out = sh("go test -count=1 -p 6 %s 2>&1 | grep -v 'no test files' | grep -v '^ok' | head -40" % " ".join(tests), cwd=wt)
    norm = lambda l: re.sub(r"\s+\(?[0-9.]+s\)?$", "", l.strip())
    fails = [norm(l) for l in out.splitlines() if l.startswith("FAIL") or l.startswith("--- FAIL")]
    res["existing_tests"] = "pass" if not fails else fails
    if fails:
        # compare with the unchanged tree (some tests are flaky / pre-existing failures)
        sh("git apply -R %s/patch.diff" % src, cwd=wt)
        rc2, out2 = sh("go test -count=1 -p 6 %s 2>&1 | grep -v 'no test files' | grep -v '^ok' | head -40" % " ".join(tests), cwd=wt)
        base = [norm(l) for l in out2.splitlines() if l.startswith("FAIL") or l.startswith("--- FAIL")]
        sh("git apply %s/patch.diff" % src, cwd=wt)
        new = [f for f in fails if f not in base]
        res["existing_tests_baseline_fails"] = base
        if new:
            print("REJECT: existing tests fail only with the patch:", new); sys.exit(1)
    # demo
    cmd = meta.get("demo_cmd", "")
    m = re.search(r"(go test [^()\n]*?-run\s+\S+\s+(\./\S+))", cmd)
    if not m:
        print("REJECT: cannot derive demo command from", cmd); sys.exit(1)
    run, pkg = m.group(1), m.group(2).rstrip("/")
    for f in os.listdir(src + "/demo"):
        shutil.copy(os.path.join(src, "demo", f), os.path.join(wt, pkg, f))
    rc_with, out_with = sh(run, cwd=wt)
    sh("git apply -R %s/patch.diff" % src, cwd=wt)
    rc_without, out_without = sh(run, cwd=wt)
    sh("git apply %s/patch.diff" % src, cwd=wt)
    res["demo"] = {"cmd": run, "with_patch_rc": rc_with, "without_patch_rc": rc_without, "with_patch_tail": out_with[-600:]}
    if not (rc_with != 0 and rc_without == 0):
        print("REJECT: demo does not discriminate: with=%d without=%d\n%s\n---\n%s" % (rc_with, rc_without, out_with[-1500:], out_without[-1500:])); sys.exit(1)
    for f in os.listdir(src + "/demo"):
        os.remove(os.path.join(wt, pkg, f))
    # our checks against the patched tree
    res["checks"] = {}
    for c in checks:
        t = time.time()
        p = subprocess.run(["./check", c, "--tier", tier], cwd="/verif", env=dict(env, VERIF_REPO=wt), stdout=subprocess.PIPE, stderr=subprocess.STDOUT, text=True)
        lines = [l for l in p.stdout.splitlines() if l.startswith("VIOLATION") or l.startswith("  ") or l.startswith("INFRA")][:6]
        res["checks"][c] = {"exit": p.returncode, "tier": tier, "wall_s": round(time.time() - t), "first_lines": lines}
        print(c, "exit", p.returncode, lines[:2])
    dst = "/verif/seeded/%s%s" % (pid, SUF)
    shutil.rmtree(dst, ignore_errors=True)
    os.makedirs(dst)
    shutil.copy(src + "/patch.diff", dst)
    shutil.copytree(src + "/demo", dst + "/demo")
    meta["confirmed"] = {"by": "tools/confirm_seed.py in a scratch worktree of /repo HEAD " + subprocess.run("git -C /repo rev-parse --short HEAD", shell=True, stdout=subprocess.PIPE, text=True).stdout.strip(),
                         "existing_tests": res["existing_tests"], "baseline_fails": res.get("existing_tests_baseline_fails", []),
                         "tests_run": "go test -count=1 " + " ".join(tests), "demo": res["demo"], "checks_against_patched_tree": res["checks"]}
    json.dump(meta, open(dst + "/meta.json", "w"), indent=1)
    print("CONFIRMED", pid, json.dumps(res["checks"]))
finally:
    sh("git -C /repo worktree remove --force %s" % wt)
    shutil.rmtree("/verif/work/bin@" + wt.strip("/").replace("/", "_"), ignore_errors=True)
