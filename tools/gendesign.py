#!/usr/bin/env python3
"""Assembles DESIGN.md from docs/design_head.md, docs/design_tail.md and generated sections."""
import glob, json, os, re, sys
V = os.path.dirname(os.path.dirname(os.path.abspath(__file__)))
sys.path.insert(0, os.path.join(V, "checks"))
import registry
props = [json.loads(l) for l in open(os.path.join(V, "properties.jsonl"))]
out = [open(os.path.join(V, "docs/design_head.md")).read().rstrip() + "\n\n"]
out.append("## 6. Per-property decision procedures\n\n"
           "One entry per property: what the specification states, how it is bound to the code, the level claimed. "
           "Bounds, TLC sizes, what fired on the unchanged tree, hand-made sanity mutations and limits are in `notes/<ID>.md`.\n\n")
for p in props:
    pid = p["id"]
    c = registry.CHECKS.get(pid)
    out.append("### %s — %s\n" % (pid, p["title"]))
    if not c:
        out.append("*Check not registered at this commit (being built); listed under `not_applicable` in MANIFEST.json.*\n\n")
        continue
    out.append("* **Level:** %s. **Engine:** %s. **Technique:** %s\n" % (c["category"], c.get("engine", ""), c["technique"]))
    out.append("* **What is decided and how.** %s\n" % c["text"])
    out.append("* **Assumptions / trusted base.** %s\n" % c["note"])
    n = os.path.join(V, "notes", pid + ".md")
    if os.path.exists(n):
        out.append("* Details: `notes/%s.md`.\n" % pid)
    out.append("\n")
tail = open(os.path.join(V, "docs/design_tail.md")).read()
sec7, sec9 = tail.split("## 9.", 1)
out.append(sec7.rstrip() + "\n\n")
out.append("## 8. Defects of Bytom/bytom confirmed by the checks\n\n"
           "Every entry was reproduced against the real code by the check of its property (failing input, schedule or history in "
           "the description). `fixed` = repaired by a minimal unguarded `fix:` commit in /repo (patch kept under `fixes/`); the check "
           "passes on the repaired tree without a KNOWN-FINDING line and reports the violation again if it returns. `known` = recorded, "
           "not repaired (consensus-affecting, or not a small safe patch): the check prints `KNOWN-FINDING` and exits 0; any other "
           "violation of the property still exits 1.\n\n| property | status | commit / signature | what fails |\n|---|---|---|---|\n")
for line in open(os.path.join(V, "KNOWN_FINDINGS.txt")):
    m = re.match(r"fixed: property=(\S+) (\S+) (.*)", line.strip())
    if m:
        out.append("| %s | fixed | `%s` | %s |\n" % (m.group(1), m.group(2), m.group(3).replace("|", "\\|")[:700]))
    m = re.match(r"known: property=(\S+) sig=(\S+) (.*)", line.strip())
    if m:
        out.append("| %s | known | `%s` | %s |\n" % (m.group(1), m.group(2).replace("|", "\\|"), m.group(3).replace("|", "\\|")[:700]))
out.append("\n## 9." + sec9.rstrip() + "\n\n")
out.append("## 10. Seeded changes: which check catches which change\n\n"
           "Each change was written by an independent sub-agent that saw only the property text and its own scratch worktree, and was "
           "confirmed by `tools/confirm_seed.py` (applies to HEAD, builds, existing tests unchanged, demonstration fails with / passes "
           "without the change) before the checks were run against the patched worktree (`VERIF_REPO`). Records: `seeded/<ID>/`.\n\n"
           "| seed | change | needs | checks run → exit (1 = detected) |\n|---|---|---|---|\n")
for d in sorted(glob.glob(os.path.join(V, "seeded", "C*"))):
    try:
        m = json.load(open(os.path.join(d, "meta.json")))
    except Exception:
        continue
    ch = (m.get("confirmed") or {}).get("checks_against_patched_tree", {})
    res = ", ".join("%s %s→%s" % (k, v.get("tier", ""), v.get("exit")) for k, v in sorted(ch.items()))
    extra = m.get("detection_note", "")
    out.append("| %s | %s | %s | %s %s |\n" % (os.path.basename(d), str(m.get("summary", ""))[:400].replace("|", "\\|").replace("\n", " "),
                                             str(m.get("needs", ""))[:300].replace("|", "\\|").replace("\n", " "), res, extra))
open(os.path.join(V, "DESIGN.md"), "w").write("".join(out))
print("DESIGN.md: %d bytes" % len("".join(out)))
