#!/usr/bin/env python3
"""Regenerates /verif/MANIFEST.json from checks/registry.py (single source of truth)."""
import json, os, subprocess, sys
V = os.path.dirname(os.path.dirname(os.path.abspath(__file__)))
sys.path.insert(0, os.path.join(V, "checks"))
import registry
props = [json.loads(l) for l in open(os.path.join(V, "properties.jsonl"))]
hooks_file = os.path.join(V, "HOOK_COMMITS.txt")
commits = [l.split()[0] for l in open(hooks_file) if l.strip() and not l.startswith("#")] if os.path.exists(hooks_file) else []
m = {
    "version": 1,
    "setup_cmd": "./setup.sh",
    "hooks": {
        "guard": "verif",
        "enable": "Go build tag: go build -tags verif (harness module /verif/harness with replace github.com/bytom/bytom => /repo)",
        "baseline_off_cmd": "for m in . ./lib/github.com/tendermint/ed25519 ./lib/golang.org/x/crypto ./lib/golang.org/x/net; do (cd /repo/$m && go test -mod=mod -json -vet=off -count=1 -timeout 25m ./...); done",
        "source_commits": commits,
        "add_only": True,
    },
    "engines": registry.ENGINES,
    "checks": [],
    "notes": "Every check: ./check <ID> --tier quick|thorough [--replay PATH]. Exit 0 = held (KNOWN-FINDING lines possible), "
             "1 = VIOLATION observed on the real code, 2 = infrastructure problem (never a verdict). "
             "Specifications under specs/, Go harness under harness/ (built against /repo's working tree on every run).",
    "not_applicable": [],
}
for p in props:
    pid = p["id"]
    c = registry.CHECKS.get(pid)
    if c and not os.path.exists(os.path.join(V, "evidence", pid + ".json")):
        c = None    # a check is claimed only once it has run here and written its evidence
    if not c:
        m["not_applicable"].append({"property_id": pid, "reason": getattr(registry, "NA", {}).get(pid, registry.PENDING)})
        continue
    m["checks"].append({
        "property_id": pid,
        "quick_cmd": "./check %s --tier quick" % pid,
        "thorough_cmd": "./check %s --tier thorough" % pid,
        "evidence_file": "/verif/evidence/%s.json" % pid,
        "replay_cmd_template": "./check %s --replay {path}" % pid,
        "engine": c.get("engine", ""),
        "level_claimed": {"category": c["category"], "text": c["text"], "design_ref": c.get("design_ref", "")},
        "level_note": c["note"],
        "technique": c["technique"],
    })
json.dump(m, open(os.path.join(V, "MANIFEST.json"), "w"), indent=1)
print("MANIFEST: %d checks, %d not_applicable" % (len(m["checks"]), len(m["not_applicable"])))
