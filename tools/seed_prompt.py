#!/usr/bin/env python3
"""Prints the prompt given to an independent mutation sub-agent for property <ID> (property text only)."""
import json, sys
pid = sys.argv[1]
for l in open('/verif/properties.jsonl'):
    p = json.loads(l)
    if p['id'] == pid:
        break
wt = "/tmp/seedwt_%s" % pid
out = "/tmp/seeds/%s" % pid
print(f"""You are a careful Go engineer helping to evaluate a verification effort. You are given ONE semantic property of the Bytom blockchain node (Go, module github.com/bytom/bytom). Your job: produce a small, realistic source change (a "seeded defect") that BREAKS this property while the repository still compiles and its existing test suite still passes, together with a demonstration (a Go test or small program) that FAILS with your change and PASSES without it.

The property ({p['id']}): {p['title']}
Statement: {p['statement']}
Quantified over: {p['quantifier']['text']}
Why the existing tests cannot settle it: {p['why_tests_cant']}
Anchored in files: {', '.join(p['anchors']['files'])}
Mechanisms meant to make it hold: {json.dumps(p['anchors']['mechanism'])}

Rules:
1. Work ONLY in your own scratch git worktree. Create it with: git -C /repo worktree add {wt} HEAD   (then cd {wt}). Never edit /repo itself and do not read or use anything under /verif. Do not remove the worktree when done (the coordinator does).
2. Environment for every go command: export GOFLAGS=-mod=mod GOPROXY=off GOSUMDB=off GOTOOLCHAIN=local  (no network). The packages `dashboard/...`, `node`, `cmd/...`, `test/integration`, `test/performance` do not build in this snapshot (empty generated files) — that is pre-existing, ignore them.
3. The change must be subtle: it should need something specific to manifest — a particular interleaving, a crash/fault at a particular point, a multi-step sequence of operations, an unusual input, or two cooperating sites that each look fine alone — NOT something ordinary use or the existing tests would expose at once. It must be the kind of mistake a real developer could make (off-by-one, wrong comparison, missing case, reordered statements, stale cache, missing lock, wrong variable), touching only non-test .go files, ideally 1-10 changed lines, in or near the anchored files. Do not change behaviour guarded by build tags. Do not modify or delete existing tests.
4. After the change: `go build ./...` for the affected packages must succeed and `go test -count=1 <every package you touched and its direct dependents among ./protocol/... ./database/... ./account/... ./wallet/... ./netsync/... ./p2p/... ./blockchain/... ./crypto/... ./common/... ./encoding/... ./math/... ./event/... ./consensus/... ./net/... ./accesstoken/... ./proposal/... ./test>` must still pass (run the relevant ones and say which you ran).
5. Write the demonstration as a new _test.go file (or a small main program) that exercises the REAL code and asserts the property on a concrete scenario; show that it fails with your change (run it) and passes on the unchanged tree. Do NOT use `git stash` (the stash is shared by all worktrees of the repository and other agents work concurrently): save your change with `git diff > {out}/p.patch`, revert it with `git apply -R {out}/p.patch`, run the demonstration, then re-apply with `git apply {out}/p.patch`.
6. Deliverables, written to {out}/ (create it): patch.diff (output of `git diff` in your worktree, non-test source change only), demo/ (the demonstration file(s), with a comment at the top saying where to place them in the repo and the exact command to run), and meta.json with keys: property ("{p['id']}"), summary (what the change does), needs (what specific input/sequence/interleaving/fault is needed for it to manifest), files (changed files), demo_cmd (exact command run from the repo root), tests_run (the go test commands you ran and that passed with the change applied).
7. Final message: a short report (what you changed, why it breaks the property, what it needs to manifest, evidence that tests pass and the demo fails/passes).
Prefer quality over speed, but finish within about 45 minutes of work. The machine is shared: do not run the whole repository test suite in a loop and use `-p 4` for go test.""")
