#!/bin/bash
# runs every registered quick check once, sequentially; logs exit code and wall time
cd /verif
out=work/sweep_$(date +%H%M).log
for id in $(python3 -c "import json;print(' '.join(c['property_id'] for c in json.load(open('MANIFEST.json'))['checks']))"); do
  s=$(date +%s); ./check $id --tier ${1:-quick} > work/sweep_$id.out 2>&1; rc=$?; e=$(date +%s)
  echo "$id rc=$rc t=$((e-s))s known=$(grep -c KNOWN-FINDING work/sweep_$id.out) viol=$(grep -c '^VIOLATION' work/sweep_$id.out)" >> $out
done
echo done >> $out
