#!/bin/bash
# thorough tier of every check, sequentially, cheap ones first; logs exit code and wall time
cd /verif
out=work/sweepT_$(date +%H%M).log
ids="$*"; [ -z "$ids" ] && ids="C31 C30 C29 C28 C03 C02 C01 C15 C33 C36 C32 C22 C26 C34 C35 C21 C20 C04 C05 C09 C08 C07 C06 C14 C27 C39 C37 C38 C24 C25 C12 C11 C16 C17 C18 C19 C10 C13 C23"
for id in $ids; do
  s=$(date +%s); nice -n 10 ./check $id --tier thorough > work/sweepT_$id.out 2>&1; rc=$?; e=$(date +%s)
  echo "$id rc=$rc t=$((e-s))s known=$(grep -c KNOWN-FINDING work/sweepT_$id.out) viol=$(grep -c '^VIOLATION' work/sweepT_$id.out)" >> $out
  [ -f work/sweepT_stop ] && break
done
echo done >> $out
