#!/usr/bin/env python3
"""Per signature: count and the SHORTEST failing path (first divergence when every prefix is exported)."""
import json,sys
best={}; cnt={}
for l in sys.stdin:
    if not l.startswith('VH '): continue
    o=json.loads(l[3:])
    if o.get('kind')!='violation': continue
    k=o['sig']; st=(o.get('replay') or {}).get('steps') or []
    cnt[k]=cnt.get(k,0)+1
    if k not in best or len(st)<best[k][0]: best[k]=(len(st),o)
def short(c):
    c=c.get('Call',c); op=c['op']
    if op=='mint': return "m%d<-%d@%d"%(c['id'],c['p'],c['pos'])
    if op=='makevote': return "k%d:v%d %d>%d%s"%(c['id'],c['v'],c['s'],c['t'],'' if c['ok'] else '!')
    if op=='makequorum': return "q%d:%s %d>%d"%(c['id'],c['vs'],c['s'],c['t'])
    if op=='carry': return "c%d+k%d"%(c['b'],c['vote'])
    if op=='deliver': return "D%d%s"%(c['b'],'o' if c.get('orphan') else 'e' if c.get('err') else '')
    if op=='vote': return "V%d(%s)"%(c['i'],c['r'])
    if op=='tick': return "T%d"%c['t']
    if op=='restart': return "RESTART"
    return op
for k,(n,o) in sorted(best.items()):
    print(cnt[k],k,"len",n); print('   ',o['desc'][:400].replace('\n',' | '))
    print('   ',' '.join(short(s) for s in o['replay']['steps']))
