#!/usr/bin/env python3
"""Summarise VH violation lines compactly: signature counts and one short example each."""
import sys, json, collections
def short(c):
    c = c.get("Call", c.get("call", c))
    op = c.get("op")
    if op == "mint": return "m%d<-%d@%d" % (c["id"], c["p"], c["pos"])
    if op == "makevote": return "k%d:v%d %d>%d%s" % (c["id"], c["v"], c["s"], c["t"], "" if c["ok"] else "!")
    if op == "makequorum": return "q%d:%s %d>%d" % (c["id"], c.get("vs"), c["s"], c["t"])
    if op == "carry": return "c%d+k%d" % (c["b"], c["vote"])
    if op == "deliver": return "D%d%s" % (c["b"], "o" if c.get("orphan") else ("e" if c.get("err") else ""))
    if op == "vote": return "V%d(%s)" % (c["i"], c.get("r"))
    if op == "tick": return "T%d" % c["t"]
    return op or "?"
seen = collections.OrderedDict()
for line in sys.stdin:
    if not line.startswith("VH "): continue
    o = json.loads(line[3:])
    if o.get("kind") != "violation": continue
    k = o["sig"]
    if k not in seen:
        seen[k] = [0, o]
    seen[k][0] += 1
for k, (n, o) in seen.items():
    r = o.get("replay") or {}
    steps = r.get("steps") or []
    print("%5d %s" % (n, k))
    print("      ", o["desc"][:300].replace("\n", " | "))
    print("      ", " ".join(short(s) for s in steps), " @", r.get("diverges_at"))
