#!/usr/bin/env python3
import json,collections,sys
c=collections.OrderedDict(); cases=0
for l in sys.stdin:
    if not l.startswith('VH '): continue
    o=json.loads(l[3:])
    if o['kind']=='violation':
        k=o['sig']
        if k not in c: c[k]=[0,o]
        c[k][0]+=1
    elif o['kind']=='summary': cases+=o.get('cases',0)
    elif o['kind']=='infra': print(o)
print("cases",cases)
for k,(n,o) in c.items():
    calls=(o.get('replay') or {}).get('calls',[])
    s=' '.join(("m%d<%d@%d%s"%(x['id'],x['p'],x['pos'],'' if x['bad']=='none' else '!'+x['bad'])) if x['op']=='mint' else ("p%d+t%d"%(x['b'],x['tx'])) if x['op']=='place' else ("D%d%s"%(x['b'],'e' if x['err'] else 'o' if x['orphan'] else '')) if x['op']=='deliver' else "S%d"%x['tx'] for x in calls)
    print(n,k); print('    ',o['desc'][:300].replace('\n',' | ')); print('    ',s)
